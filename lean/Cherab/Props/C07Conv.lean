import Cherab.Model.Rates
import Cherab.Model.Conversion
import Cherab.Gen.Conversion
import Cherab.Lemmas.Rates
import Mathlib.Tactic.NormNum.OfScientific

/-!
# C07 — cherab/core/utility/conversion.py ("after the documented unit conversion")

* the table `harness/translators/conversion.py` reads from the source on every run is the modelled one (`decide`);
* lifting: interpreting the *generated* `return` expressions with Python's method resolution gives the hand-written
  functions of `Model/Conversion.lean`, for every argument and every `sqrt` / constants environment;
* `to` and `inv` of every class are mutually inverse where they can be (non-zero factor and wavelength; non-negative
  energies and velocities for `EvAmuToMS`, whose `inv ∘ to` is the identity but whose `to ∘ inv` is `|·|`).
-/
namespace Cherab.Props.C07Conv
set_option linter.unusedSectionVars false
set_option linter.unusedVariables false
open Cherab.Conv Cherab.Gen.Conversion

variable {α : Type} [Field α] [LinearOrder α] [IsStrictOrderedRing α]

/-! ## the generated table -/

/-- conversion.py as read by the translator on this run is exactly the table the hand-written functions transcribe,
and every class body consists only of statements the translator reads. -/
theorem conversion_table_as_modelled : conversions = modelled ∧ notUnderstood = [] := by decide

/-- the six factor classes and the two special ones: every class of the file is covered by the lifting theorems below -/
theorem conversion_classes_complete :
    conversions.map (·.name) = ["EvAmuToMS", "PhotonToJ", "BaseFactorConversion", "AmuToKg", "EvToJ", "Cm3ToM3",
      "PerCm3ToPerM3", "AngstromToNm"] := by decide

/-- **lifting, methods**: for all arguments, the generated `to` / `inv` of every class (resolved along the base chain as
Python does) is the hand-written function. -/
theorem conversion_methods_lift (sqrt : α → α) (consts : String → α) (cf x wl : α) :
    evalMethod conversions "EvAmuToMS" false sqrt consts cf x wl = some (evAmuTo sqrt cf x)
    ∧ evalMethod conversions "EvAmuToMS" true sqrt consts cf x wl = some (evAmuInv cf x)
    ∧ evalMethod conversions "PhotonToJ" false sqrt consts cf x wl = some (photonTo cf x wl)
    ∧ evalMethod conversions "PhotonToJ" true sqrt consts cf x wl = some (photonInv cf x wl)
    ∧ ∀ cls ∈ ["BaseFactorConversion", "AmuToKg", "EvToJ", "Cm3ToM3", "PerCm3ToPerM3", "AngstromToNm"],
        evalMethod conversions cls false sqrt consts cf x wl = some (factorTo cf x)
        ∧ evalMethod conversions cls true sqrt consts cf x wl = some (factorInv cf x) := by
  refine ⟨rfl, rfl, rfl, rfl, ?_⟩
  intro cls h
  simp only [List.mem_cons, List.not_mem_nil, or_false] at h
  rcases h with h | h | h | h | h | h <;> subst h <;> exact ⟨rfl, rfl⟩

/-- **lifting, factors**: the generated `conversion_factor` of every class, in the constants environment `consts`. -/
theorem conversion_factors_lift (consts : String → α) :
    evalFactor conversions "EvAmuToMS" consts = some (evAmuFactor (consts "elementary_charge") (consts "atomic_mass"))
    ∧ evalFactor conversions "PhotonToJ" consts = some (hc9 (consts "Planck") (consts "speed_of_light"))
    ∧ evalFactor conversions "AmuToKg" consts = some (consts "atomic_mass")
    ∧ evalFactor conversions "EvToJ" consts = some (consts "elementary_charge")
    ∧ evalFactor conversions "Cm3ToM3" consts = some (litVal 1 (-6))
    ∧ evalFactor conversions "PerCm3ToPerM3" consts = some (litVal 1 6)
    ∧ evalFactor conversions "AngstromToNm" consts = some (litVal 1 (-1))
    ∧ evalFactor conversions "BaseFactorConversion" consts = none :=
  ⟨rfl, rfl, rfl, rfl, rfl, rfl, rfl, rfl⟩

/-- the photon conversion used by the rate classes (`Rates.photonToJ`) is `PhotonToJ.to` of this file -/
theorem photonTo_is_rates_photonToJ (cf x wl : α) : photonTo cf x wl = Cherab.Rates.photonToJ cf x wl := rfl

/-! ## round trips -/

/-- `BaseFactorConversion`: `inv (to x) = x` and `to (inv x) = x` for every non-zero factor. -/
theorem factor_roundtrip (cf x : α) (hcf : cf ≠ 0) :
    factorInv cf (factorTo cf x) = x ∧ factorTo cf (factorInv cf x) = x := by
  simp only [factorInv, factorTo]
  constructor <;> field_simp

example : factorInv (2 : ℚ) (factorTo 2 3) = 3 ∧ factorTo (2 : ℚ) (factorInv 2 3) = 3 := factor_roundtrip 2 3 (by norm_num)

/-- a zero factor has no inverse: `inv (to x)` is 0 (field convention; Python raises ZeroDivisionError / gives nan) -/
theorem factor_roundtrip_needs_nonzero (x : α) : factorInv 0 (factorTo 0 x) = 0 := by
  simp [factorInv, factorTo]

/-- `PhotonToJ`: the two directions are mutually inverse for every non-zero factor and wavelength. -/
theorem photon_roundtrip (cf x wl : α) (hcf : cf ≠ 0) (hwl : wl ≠ 0) :
    photonInv cf (photonTo cf x wl) wl = x ∧ photonTo cf (photonInv cf x wl) wl = x := by
  simp only [photonInv, photonTo]
  constructor <;> field_simp

example : photonInv (2 : ℚ) (photonTo 2 3 5) 5 = 3 ∧ photonTo (2 : ℚ) (photonInv 2 3 5) 5 = 3 :=
  photon_roundtrip 2 3 5 (by norm_num) (by norm_num)

/-- `PhotonToJ.to` is linear in the coefficient and positive on positive input: the stored photon coefficient times
`hc/λ` (the sentence's "photon coefficients times hc/lambda of the requested species"). -/
theorem photonTo_is_times_hc_over_lambda (cf x wl : α) : photonTo cf x wl = x * (cf / wl) := by
  simp only [photonTo]; ring

/-- `Cm3ToM3` and `PerCm3ToPerM3` are inverse to one another: the literals `1e-6` and `1e6` multiply to one. -/
theorem cm3_perCm3_inverse (x : α) :
    factorTo (litVal 1 6) (factorTo (litVal 1 (-6)) x) = x
    ∧ factorInv (litVal 1 (-6)) x = factorTo (litVal 1 6) x := by
  have h6 : (litVal 1 6 : α) = 1000000 := by
    have e : Int.toNat 6 = 6 := rfl
    simp only [litVal, e]; norm_num
  have hm6: (litVal 1 (-6) : α) = 1 / 1000000 := by
    simp only [litVal]; norm_num
  simp only [factorTo, factorInv, h6, hm6]
  constructor <;> field_simp

/-- the contract of the square root used by `EvAmuToMS.to` -/
def SqrtSpec (sqrt : α → α) : Prop := ∀ y, 0 ≤ y → 0 ≤ sqrt y ∧ sqrt y * sqrt y = y

example : SqrtSpec Real.sqrt := fun y hy => ⟨Real.sqrt_nonneg y, Real.mul_self_sqrt hy⟩

/-- `EvAmuToMS`: energy → velocity → energy is the identity on non-negative energies. -/
theorem evAmu_inv_to (sqrt : α → α) (S : SqrtSpec sqrt) (cf x : α) (hcf : 0 < cf) (hx : 0 ≤ x) :
    evAmuInv cf (evAmuTo sqrt cf x) = x := by
  simp only [evAmuInv, evAmuTo]
  rw [(S (x * cf) (mul_nonneg hx hcf.le)).2]
  field_simp

/-- `EvAmuToMS`: velocity → energy → velocity is the absolute value: the identity on `v ≥ 0`, `-v` on `v < 0`. -/
theorem evAmu_to_inv (sqrt : α → α) (S : SqrtSpec sqrt) (cf v : α) (hcf : 0 < cf) :
    evAmuTo sqrt cf (evAmuInv cf v) = |v| := by
  simp only [evAmuInv, evAmuTo]
  have e : v * v / cf * cf = v * v := by field_simp
  rw [e]
  obtain ⟨h0, h1⟩ := S (v * v) (mul_self_nonneg v)
  have : sqrt (v * v) * sqrt (v * v) = |v| * |v| := by rw [h1, abs_mul_abs_self]
  exact (mul_self_inj_of_nonneg h0 (abs_nonneg v)).1 this

example : evAmuInv (2 : ℝ) (evAmuTo Real.sqrt 2 8) = 8 ∧ evAmuTo Real.sqrt (2 : ℝ) (evAmuInv 2 (-4)) = |(-4 : ℝ)| :=
  ⟨evAmu_inv_to Real.sqrt (fun y hy => ⟨Real.sqrt_nonneg y, Real.mul_self_sqrt hy⟩) 2 8 (by norm_num) (by norm_num),
   evAmu_to_inv Real.sqrt (fun y hy => ⟨Real.sqrt_nonneg y, Real.mul_self_sqrt hy⟩) 2 (-4) (by norm_num)⟩

/-- … so `to ∘ inv` is NOT the identity on negative velocities (the sign is lost), for any conforming `sqrt`. -/
theorem evAmu_to_inv_loses_sign (sqrt : α → α) (S : SqrtSpec sqrt) (cf v : α) (hcf : 0 < cf) (hv : v < 0) :
    evAmuTo sqrt cf (evAmuInv cf v) ≠ v := by
  rw [evAmu_to_inv sqrt S cf v hcf, abs_of_neg hv]
  intro h; linarith

/-- `EvAmuToMS.to` is strictly increasing on non-negative energies (derived from the contract of `sqrt` alone). -/
theorem evAmuTo_strictMono (sqrt : α → α) (S : SqrtSpec sqrt) (cf x y : α) (hcf : 0 < cf) (hx : 0 ≤ x) (hxy : x < y) :
    evAmuTo sqrt cf x < evAmuTo sqrt cf y := by
  simp only [evAmuTo]
  obtain ⟨a0, a1⟩ := S (x * cf) (mul_nonneg hx hcf.le)
  obtain ⟨b0, b1⟩ := S (y * cf) (mul_nonneg (hx.trans hxy.le) hcf.le)
  by_contra h
  have h' := mul_self_le_mul_self b0 (not_lt.1 h)
  rw [a1, b1] at h'
  have := mul_lt_mul_of_pos_right hxy hcf
  linarith

example : evAmuTo Real.sqrt (2 : ℝ) 2 < evAmuTo Real.sqrt 2 8 :=
  evAmuTo_strictMono Real.sqrt (fun y hy => ⟨Real.sqrt_nonneg y, Real.mul_self_sqrt hy⟩) 2 2 8
    (by norm_num) (by norm_num) (by norm_num)

end Cherab.Props.C07Conv
