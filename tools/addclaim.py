#!/usr/bin/env python3
"""addclaim.py Cxx 'text' 'note' ['technique']"""
import json, sys, os
D = os.path.dirname(os.path.dirname(os.path.abspath(__file__)))
p = os.path.join(D, 'tools', 'claims.json')
c = json.load(open(p))
e = dict(text=sys.argv[2], note=sys.argv[3])
if len(sys.argv) > 4:
    e['technique'] = sys.argv[4]
c[sys.argv[1]] = e
json.dump(c, open(p, 'w'), indent=1)
os.system('python3 %s/tools/mkmanifest.py' % D)
