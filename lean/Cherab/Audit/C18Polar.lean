import Cherab.Props.C18Polar
open Cherab.Props.C18 Cherab.Props.C18Table
-- Vector3D.normalise as used by set_polarization
#print axioms normalise_none_iff
#print axioms normalise_unit
#print axioms normalise_parallel
#print axioms normalise_idempotent
#print axioms normalise_scale_invariant
-- setter / getter / mixed histories
#print axioms setPolarization_spec
#print axioms polarisation_rejected_unchanged
#print axioms polarisation_independent_of_parameters
#print axioms history_factors
#print axioms history_polarisation_unit
#print axioms polarisation_is_last_accepted
-- constructor (generated statement list) and freshness
#print axioms prunCtorFrom_spec
#print axioms ctor_polarisation
#print axioms ctor_polarisation_unit
#print axioms polarisation_eq_fresh
#print axioms prunCtorFrom_complete
#print axioms ctor_polarisation_complete
#print axioms polarisation_eq_fresh_total
#print axioms profiles_set_polarisation
#print axioms profiles_polarisation_fresh
