import Cherab.Props.C06Table
open Cherab.Props.C06Table
#print axioms get_matches_update
#print axioms templates_shaped
#print axioms templates_disjoint
