"""child process: runs one property module against the real code; exit 0/1/2."""
import importlib
import os
import sys
import traceback

sys.path.insert(0, os.path.dirname(os.path.dirname(os.path.abspath(__file__))))
from harness.vlib import core, rebuild  # noqa


def main():
    prop, tier, seed = sys.argv[1], sys.argv[2], int(sys.argv[3])
    replay = sys.argv[4] if len(sys.argv) > 4 else None
    try:
        info = rebuild.ensure_built()
    except rebuild.InfraError as e:
        print('INFRA: %s' % e)
        return 2
    ctx = core.Ctx(prop, tier, seed)
    ctx.extra['repo_rebuild'] = info

    # soft deadline a little before the parent's hard time-out: whatever has been established by then is reported
    class _Deadline(Exception):
        pass

    def _alarm(signum, frame):
        raise _Deadline()
    import signal
    signal.signal(signal.SIGALRM, _alarm)
    signal.alarm(3150 if tier == 'thorough' else 1380)
    try:
        mod = importlib.import_module('harness.props.' + prop.lower())
        if replay:
            return mod.replay(ctx, replay)
        mod.run(ctx)
    except _Deadline:
        signal.alarm(0)
        ctx.extra['deadline_hit'] = True
        if ctx.failing or ctx.broken or ctx.known_hits:
            print('[%s] soft deadline reached; reporting what was established so far' % prop)
            return ctx.finish()
        print('INFRA: time-out (soft deadline) with nothing established')
        return 2
    except core.InfraError as e:
        print('INFRA: %s' % e)
        return 2
    except Exception as e:
        # The harness itself fell over while driving the implementation (a changed implementation may return shapes or
        # raise errors no stream anticipated).  That is not a verdict of "held": the correspondence could not be
        # established, so it is reported as a broken correspondence (VIOLATION ... no-failing-input-found unless a
        # failing input was already recorded), never as exit 2.
        signal.alarm(0)
        tb = traceback.format_exc()
        print(tb)
        if replay:
            print('INFRA: harness exception during replay')
            return 2
        ctx.broke('correspondence', '%s harness could not complete against this implementation' % prop,
                  dict(exception='%s: %s' % (type(e).__name__, str(e)[:300]), traceback=tb[-1500:]))
        return ctx.finish()
    signal.alarm(0)
    return ctx.finish()


if __name__ == '__main__':
    sys.exit(main())
