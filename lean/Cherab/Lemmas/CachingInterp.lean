import Cherab.Lemmas.CachingAlg

/-!
Helper lemmas for C14, part 4: what a solution of the constraint system is worth.
* knot rows: the normalised polynomial takes the data values at the cell's knots;
* `denorm*`: the stored (denormalised) polynomial at `p` = `δ · (normalised polynomial at (p − x₀)·Δ⁻¹) + data_min`;
* existence in 1-D (explicit cubic Hermite coefficients);
* a function that is affine in each coordinate satisfies every row (values, central differences and mixed
  differences are exact for it on any node grid);
* the right-hand side is affine in the data, so value normalisation commutes with solving.
-/
namespace Cherab.Caching
set_option linter.unusedSectionVars false
set_option linter.unusedSimpArgs false

variable {α : Type} [Field α] [LinearOrder α] [IsStrictOrderedRing α]

/-! ### knot rows -/

theorem knot1 (ax : Axis α) (i : Nat) (d c : Nat → α) (h : IsSol1 ax i d c) :
    poly1 c (ax.xn i) = d 1 ∧ poly1 c (ax.xn (i + 1)) = d 2 := by
  have h0 := h 0 (by norm_num)
  have h2 := h 2 (by norm_num)
  simp [row1, dot, dotFrom] at h0 h2
  constructor
  · rw [← h0]; simp [poly1]; ring
  · rw [← h2]; simp [poly1]; ring

/-- value rows of the 2-D system: knots `(i + ex, j + ey)`, `ex, ey ∈ {0,1}` -/
theorem knot2 (ax ay : Axis α) (cell : Nat × Nat) (D : Nat → Nat → α) (c : Nat → α) (h : IsSol2 ax ay cell D c)
    (ex ey : Nat) (hx : ex < 2) (hy : ey < 2) :
    poly2 c (ax.xn (cell.1 + ex), ay.xn (cell.2 + ey)) = D (ex + 1) (ey + 1) := by
  have := h (4 * (2 * ex + ey)) (by omega)
  interval_cases ex <;> interval_cases ey <;> simp [row2, dot, dotFrom] at this <;> rw [← this] <;>
    simp [poly2] <;> ring

theorem knot3 (ax ay az : Axis α) (cell : Nat × Nat × Nat) (D : Nat → Nat → Nat → α) (c : Nat → α)
    (h : IsSol3 ax ay az cell D c) (ex ey ez : Nat) (hx : ex < 2) (hy : ey < 2) (hz : ez < 2) :
    poly3 c (ax.xn (cell.1 + ex), ay.xn (cell.2.1 + ey), az.xn (cell.2.2 + ez)) = D (ex + 1) (ey + 1) (ez + 1) := by
  have := h (8 * (4 * ex + 2 * ey + ez)) (by omega)
  interval_cases ex <;> interval_cases ey <;> interval_cases ez <;>
    simp [row3, dot_constraints3d, sum4, comps] at this <;> rw [← this] <;> simp [poly3, cub] <;> ring

/-! ### denormalisation -/

theorem denorm1 (E : Ext α) (hp : ∀ x n, E.powi x n = x ^ n) (ax : Axis α) (nm : Norm α) (c : Nat → α) (p : α) :
    poly1 (finish1 E ax nm c) p = nm.delta * poly1 c ((p - ax.xmin) * ax.dinv) + nm.dmin := by
  simp [poly1, finish1, polyDeriv1, derivArr, hp, fact]
  ring

theorem denorm2 (E : Ext α) (hp : ∀ x n, E.powi x n = x ^ n) (ax ay : Axis α) (nm : Norm α) (c : Nat → α)
    (p : α × α) :
    poly2 (finish2 E ax ay nm c) p =
      nm.delta * poly2 c ((p.1 - ax.xmin) * ax.dinv, (p.2 - ay.xmin) * ay.dinv) + nm.dmin := by
  simp [poly2, finish2, polyDeriv2, derivArr, hp, fact]
  ring

/-! ### existence in 1-D: the cubic Hermite polynomial in the monomial basis -/

/-- coefficients of the cubic with values `y0, y1` and slopes `m0, m1` at `x0 ≠ x1` -/
def hermiteC (x0 x1 y0 y1 m0 m1 : α) (k : Nat) : α :=
  let h := x1 - x0
  let dl := (y1 - y0) / h
  let A := (3 * dl - 2 * m0 - m1) / h
  let B := (m0 + m1 - 2 * dl) / (h * h)
  if k = 0 then y0 - m0 * x0 + A * x0 * x0 - B * x0 * x0 * x0
  else if k = 1 then m0 - 2 * A * x0 + 3 * B * x0 * x0
  else if k = 2 then A - 3 * B * x0
  else if k = 3 then B else 0

theorem hermite_solves (ax : Axis α) (i : Nat) (d : Nat → α) (hne : ax.xn i ≠ ax.xn (i + 1)) :
    IsSol1 ax i d (hermiteC (ax.xn i) (ax.xn (i + 1)) (d 1) (d 2)
      ((d 2 - d 0) / (ax.xn (i + 1) - ax.xn (i - 1))) ((d 3 - d 1) / (ax.xn (i + 2) - ax.xn i))) := by
  have hh : ax.xn (i + 1) - ax.xn i ≠ 0 := sub_ne_zero.mpr (Ne.symm hne)
  generalize hm0 : (d 2 - d 0) / (ax.xn (i + 1) - ax.xn (i - 1)) = m0
  generalize hm1 : (d 3 - d 1) / (ax.xn (i + 2) - ax.xn i) = m1
  intro l hl
  interval_cases l <;> simp [row1, dot, dotFrom, hermiteC, hm0, hm1] <;> field_simp <;> ring

/-! ### a function affine in each coordinate satisfies every row -/

theorem affine_solves1 (ax : Axis α) (i' : Nat) (a b : α)
    (h0 : ax.xn (i' + 2) ≠ ax.xn i') (h1 : ax.xn (i' + 3) ≠ ax.xn (i' + 1)) :
    IsSol1 ax (i' + 1) (fun k => a + b * ax.xn (i' + k)) (fun k => if k = 0 then a else if k = 1 then b else 0) := by
  have e0 : ax.xn (i' + 2) - ax.xn i' ≠ 0 := sub_ne_zero.mpr h0
  have e1 : ax.xn (i' + 3) - ax.xn (i' + 1) ≠ 0 := sub_ne_zero.mpr h1
  intro l hl
  interval_cases l <;> simp [row1, dot, dotFrom, Nat.add_assoc] <;> field_simp <;> ring

def ml2 (m : Nat → Nat → α) (x y : α) : α := m 0 0 + m 0 1 * y + m 1 0 * x + m 1 1 * x * y
def embed2 (m : Nat → Nat → α) (n : Nat) : α := if n / 4 < 2 ∧ n % 4 < 2 then m (n / 4) (n % 4) else 0

theorem multilinear_solves2 (ax ay : Axis α) (i' j' : Nat) (m : Nat → Nat → α)
    (hx0 : ax.xn (i' + 2) ≠ ax.xn i') (hx1 : ax.xn (i' + 3) ≠ ax.xn (i' + 1))
    (hy0 : ay.xn (j' + 2) ≠ ay.xn j') (hy1 : ay.xn (j' + 3) ≠ ay.xn (j' + 1)) :
    IsSol2 ax ay (i' + 1, j' + 1) (fun a b => ml2 m (ax.xn (i' + a)) (ay.xn (j' + b))) (embed2 m) := by
  have e0 : ax.xn (i' + 2) - ax.xn i' ≠ 0 := sub_ne_zero.mpr hx0
  have e1 : ax.xn (i' + 3) - ax.xn (i' + 1) ≠ 0 := sub_ne_zero.mpr hx1
  have e2 : ay.xn (j' + 2) - ay.xn j' ≠ 0 := sub_ne_zero.mpr hy0
  have e3 : ay.xn (j' + 3) - ay.xn (j' + 1) ≠ 0 := sub_ne_zero.mpr hy1
  intro l hl
  interval_cases l <;> simp [row2, dot, dotFrom, Nat.add_assoc, embed2, ml2] <;> field_simp <;> ring

/-! ### the right-hand side is affine in the data: value normalisation commutes with solving -/

/-- unit constant polynomial -/
def e0 (n : Nat) : α := if n = 0 then 1 else 0

theorem norm_solves1 (ax : Axis α) (i : Nat) (d c : Nat → α) (dmin s : α) (h : IsSol1 ax i d c) :
    IsSol1 ax i (fun k => (d k - dmin) * s) (fun n => s * c n + (-(dmin * s)) * e0 n) := by
  intro l hl
  have := h l hl
  rw [dot_lin]
  interval_cases l <;> simp [row1, dot, dotFrom, e0] at this ⊢ <;> linear_combination s * this

theorem row2_fst (ax ay : Axis α) (cell : Nat × Nat) (D D' : Nat → Nat → α) (l : Nat) :
    (row2 ax ay cell D l).1 = (row2 ax ay cell D' l).1 := by
  unfold row2; simp only []; split_ifs <;> rfl

theorem row3_fst (ax ay az : Axis α) (cell : Nat × Nat × Nat) (D D' : Nat → Nat → Nat → α) (l : Nat) :
    (row3 ax ay az cell D l).1 = (row3 ax ay az cell D' l).1 := by
  unfold row3; simp only []; split_ifs <;> rfl

theorem norm_solves2 (ax ay : Axis α) (cell : Nat × Nat) (D : Nat → Nat → α) (c : Nat → α) (dmin s : α)
    (h : IsSol2 ax ay cell D c) :
    IsSol2 ax ay cell (fun a b => (D a b - dmin) * s) (fun n => s * c n + (-(dmin * s)) * e0 n) := by
  intro l hl
  have := h l hl
  rw [dot_lin, row2_fst ax ay cell _ D, this]
  have hk : l % 4 < 4 := Nat.mod_lt _ (by norm_num)
  generalize hkk : l % 4 = kind at hk
  interval_cases kind <;> simp [row2, hkk, dot, dotFrom, e0] <;> ring

theorem norm_solves3 (ax ay az : Axis α) (cell : Nat × Nat × Nat) (D : Nat → Nat → Nat → α) (c : Nat → α) (dmin s : α)
    (h : IsSol3 ax ay az cell D c) :
    IsSol3 ax ay az cell (fun a b k => (D a b k - dmin) * s) (fun n => s * c n + (-(dmin * s)) * e0 n) := by
  intro l hl
  have := h l hl
  rw [dot_lin, row3_fst ax ay az cell _ D, this]
  have hk : l % 8 < 8 := Nat.mod_lt _ (by norm_num)
  generalize hkk : l % 8 = kind at hk
  interval_cases kind <;> simp [row3, hkk, dot_constraints3d, sum4, comps, e0] <;> ring

end Cherab.Caching
