import Cherab.Model.Adf
import Cherab.Lemmas.Adf
import Cherab.Lemmas.Adf15
import Cherab.Model.AdfText
import Cherab.Lemmas.AdfText
import Mathlib.Tactic.Ring
import Mathlib.Tactic.Linarith
import Mathlib.Data.List.Nodup

/-!
# C08 — ADF parsers return the file's numbers under the documented conventions
-/
namespace Cherab.Props.C08
set_option linter.unusedSectionVars false
set_option linter.unusedVariables false
open Cherab.Adf

variable {α ℓ : Type}

/-- utility.readvalues: reading `n` values from the lines produced by writing `n` values `p` per line returns them in
order and leaves the stream exactly after the last of those lines — for every `n`, multiples of `p` or not. -/
theorem readvalues_chunks (field : ℓ → Nat → Option α) (mk : List α → ℓ) (hf : ∀ xs k, field (mk xs) k = xs[k]?)
    (p : Nat) (hp : 0 < p) (xs : List α) (rest : List ℓ) :
    readvalues field xs.length p ((chunk p xs).map mk ++ rest) = .ok (xs, rest) := by
  have := readvaluesAux_chunks field mk hf p hp rest xs.length xs rfl 0 none
  simpa [readvalues] using this

/-! ## ADF21 / ADF22 -/

theorem field2x (xs : List α) (k : Nat) : (lexK2x (α := α)).field (.vals xs) k = xs[k]? := rfl

theorem readCols_cols (neb : Nat) (rest : List (K2x α)) :
    ∀ (cs : List (List α)), (∀ c ∈ cs, c.length = neb) →
      readCols (lexK2x (α := α)).field neb cs.length (cs.flatMap (fun c => (chunk 8 c).map .vals) ++ rest) = .ok (cs, rest) := by
  intro cs
  induction cs with
  | nil => intro _; simp [readCols]
  | cons c cs ih =>
    intro h
    have hc : c.length = neb := h c List.mem_cons_self
    simp only [List.length_cons, List.flatMap_cons, List.append_assoc, readCols]
    rw [← hc, readvalues_chunks _ K2x.vals field2x 8 (by omega)]
    simp only
    rw [hc, ih (fun c' hc' => h c' (List.mem_cons_of_mem _ hc'))]

theorem transpose_cols (neb ndt : Nat) (sv : Nat → Nat → α) :
    ((List.range neb).map fun i => ((List.range ndt).map fun j => (List.range neb).map fun i => sv i j).filterMap fun c => c[i]?)
      = tabulate neb ndt sv := by
  unfold tabulate
  apply map_range_congr
  intro i hi
  rw [List.filterMap_map]
  apply filterMap_range_some
  intro j _
  simp [hi]

section views2x
variable (z n a b : Nat) (s sp tr e d : α) (xs : List α)
@[simp] theorem zt_head : (lexK2x (α := α)).zt (.head z s sp) = some z := rfl
@[simp] theorem svref_head : (lexK2x (α := α)).svref (.head z s sp) = some s := rfl
@[simp] theorem n1_dims : (lexK2x (α := α)).n1 (.dims a b tr) = some a := rfl
@[simp] theorem n2_dims : (lexK2x (α := α)).n2 (.dims a b tr) = some b := rfl
@[simp] theorem tref_dims : (lexK2x (α := α)).tref (.dims a b tr) = some tr := rfl
@[simp] theorem n1_tdims : (lexK2x (α := α)).n1 (.tdims n e d) = some n := rfl
@[simp] theorem eref_tdims : (lexK2x (α := α)).eref (.tdims n e d) = some e := rfl
@[simp] theorem dref_tdims : (lexK2x (α := α)).dref (.tdims n e d) = some d := rfl
end views2x

theorem readvalues_chunks_n (field : ℓ → Nat → Option α) (mk : List α → ℓ) (hf : ∀ xs k, field (mk xs) k = xs[k]?)
    (p : Nat) (hp : 0 < p) (xs : List α) (n : Nat) (hn : xs.length = n) (rest : List ℓ) :
    readvalues field n p ((chunk p xs).map mk ++ rest) = .ok (xs, rest) := by
  subst hn; exact readvalues_chunks field mk hf p hp xs rest

theorem readvalues_chunks_end (field : ℓ → Nat → Option α) (mk : List α → ℓ) (hf : ∀ xs k, field (mk xs) k = xs[k]?)
    (p : Nat) (hp : 0 < p) (xs : List α) (n : Nat) (hn : xs.length = n) :
    readvalues field n p ((chunk p xs).map mk) = .ok (xs, []) := by
  have := readvalues_chunks_n field mk hf p hp xs n hn []
  simpa using this

theorem readCols_range (neb ndt : Nat) (sv : Nat → Nat → α) (rest : List (K2x α)) :
    readCols (lexK2x (α := α)).field neb ndt
      ((List.range ndt).flatMap (fun j => (chunk 8 ((List.range neb).map fun i => sv i j)).map .vals) ++ rest)
      = .ok ((List.range ndt).map (fun j => (List.range neb).map fun i => sv i j), rest) := by
  have := readCols_cols neb rest ((List.range ndt).map (fun j => (List.range neb).map fun i => sv i j))
    (by intro c hc; simp only [List.mem_map] at hc; obtain ⟨j, _, rfl⟩ := hc; simp)
  simpa [List.flatMap_map] using this

/-- ADF21/ADF22: parsing the rendered file returns exactly the file's tables (section order, `sen[i_e][i_n]` axis
order), for all grid sizes. -/
theorem adf2x_roundtrip (t : Tab2x α) : parse2x lexK2x (render2x t) = .ok (expected2x t) := by
  unfold parse2x render2x expected2x
  simp only [List.append_assoc, List.cons_append, List.nil_append, needLine, bind, Except.bind, opt, List.tail_cons,
    pure, Except.pure, zt_head, svref_head, n1_dims, n2_dims, tref_dims]
  rw [readvalues_chunks _ K2x.vals field2x 8 (by omega)]
  simp only []
  rw [readvalues_chunks _ K2x.vals field2x 8 (by omega)]
  simp only [List.tail_cons]
  rw [readCols_range]
  simp only [List.tail_cons, n1_tdims, eref_tdims, dref_tdims]
  rw [readvalues_chunks _ K2x.vals field2x 8 (by omega)]
  simp only [List.tail_cons]
  rw [readvalues_chunks_end _ K2x.vals field2x 8 (by omega) _ _ (by simp)]
  simp only [transpose_cols]

/-! ## ADF12 -/

theorem chunk_small {p : Nat} (xs : List α) (h0 : xs ≠ []) (hl : xs.length ≤ p) : chunk p xs = [xs] := by
  have hp : 0 < p := by have := List.length_pos_iff.mpr h0; omega
  rw [chunk_cons hp h0, List.take_of_length_le hl, List.drop_eq_nil_of_le hl, chunk_nil]

theorem field12 (xs : List α) (k : Nat) : (lexK12 (α := α)).field (.vals xs) k = xs[k]? := rfl
theorem ifield12 (xs : List Nat) (k : Nat) : (lexK12 (α := α)).ifield (.ints xs) k = xs[k]? := rfl

theorem length_padTo (n : Nat) (pad : α) (xs : List α) (h : xs.length ≤ n) : (padTo n pad xs).length = n := by
  simp [padTo]; omega

theorem take_padTo (n : Nat) (pad : α) (xs : List α) : (padTo n pad xs).take xs.length = xs := by
  simp [padTo]

theorem sec_read (n : Nat) (pad : α) (xs : List α) (h : xs.length ≤ n) (rest : List (K12 α)) :
    readvalues (lexK12 (α := α)).field n 6 (section12 n pad xs ++ rest) = .ok (padTo n pad xs, rest) :=
  readvalues_chunks_n _ K12.vals field12 6 (by omega) _ _ (length_padTo n pad xs h) rest

theorem take_padTo_map (n m : Nat) (pad : α) (f : Nat → α) :
    (padTo n pad ((List.range m).map f)).take m = (List.range m).map f := by
  have := take_padTo n pad ((List.range m).map f)
  simpa using this

theorem readvalues_line {β : Type} (field : ℓ → Nat → Option β) (mk : List β → ℓ) (hf : ∀ xs k, field (mk xs) k = xs[k]?)
    (p : Nat) (xs : List β) (n : Nat) (hn : xs.length = n) (h0 : 0 < n) (hp : n ≤ p) (rest : List ℓ) :
    readvalues field n p (mk xs :: rest) = .ok (xs, rest) := by
  have := readvalues_chunks_n field mk hf p (by omega) xs n hn rest
  rw [chunk_small xs (by intro h; subst h; simp at hn; omega) (by omega)] at this
  simpa using this

/-- well-formed ADF12 block: five reference values, section lengths within the fixed 24/12/24/12/12 layout -/
structure WF12 (b : Blk12 α) : Prop where
  refs : b.refs.length = 5
  ener : b.ener.length ≤ 24
  tiev : b.tiev.length ≤ 12
  densi : b.densi.length ≤ 24
  zeff : b.zeff.length ≤ 12
  bmag : b.bmag.length ≤ 12

theorem parseBlock12_render (pad : α) (b : Blk12 α) (h : WF12 b) (rest : List (K12 α)) :
    parseBlock12 lexK12 (renderBlk12 pad b ++ rest) = .ok (expectedBlk12 b, rest) := by
  obtain ⟨hr, h1, h2, h3, h4, h5⟩ := h
  obtain ⟨r0, r1, r2, r3, r4, hrefs⟩ : ∃ r0 r1 r2 r3 r4, b.refs = [r0, r1, r2, r3, r4] := by
    match hb : b.refs, hr with
    | [r0, r1, r2, r3, r4], _ => exact ⟨r0, r1, r2, r3, r4, rfl⟩
  unfold parseBlock12 renderBlk12 expectedBlk12
  simp only [List.append_assoc, List.cons_append, List.nil_append, needLine, bind, Except.bind, opt, pure, Except.pure]
  rw [readvalues_line _ K12.vals field12 6 [b.qefref] 1 rfl (by omega) (by omega)]
  simp only [List.getElem?_cons_zero]
  rw [readvalues_line _ K12.vals field12 6 b.refs 5 hr (by omega) (by omega)]
  simp only []
  rw [readvalues_line _ K12.ints ifield12 6 _ 5 rfl (by omega) (by omega)]
  simp only [hrefs]
  rw [sec_read 24 pad _ h1]; simp only []
  rw [sec_read 24 pad _ (by simpa using h1)]; simp only []
  rw [sec_read 12 pad _ h2]; simp only []
  rw [sec_read 12 pad _ (by simpa using h2)]; simp only []
  rw [sec_read 24 pad _ h3]; simp only []
  rw [sec_read 24 pad _ (by simpa using h3)]; simp only []
  rw [sec_read 12 pad _ h4]; simp only []
  rw [sec_read 12 pad _ (by simpa using h4)]; simp only []
  rw [sec_read 12 pad _ h5]; simp only []
  rw [sec_read 12 pad _ (by simpa using h5)]; simp only []
  simp only [take_padTo, take_padTo_map, List.getD_cons_zero, List.getD_cons_succ]
  rfl

theorem parseBlocks12_render (pad : α) (rest : List (K12 α)) :
    ∀ (bs : List (Blk12 α)), (∀ b ∈ bs, WF12 b) → ∀ d,
      parseBlocks12 lexK12 bs.length (bs.flatMap (renderBlk12 pad) ++ rest) d
        = .ok ((bs.map expectedBlk12).foldl (fun d kv => dictSet d kv.1 kv.2) d) := by
  intro bs
  induction bs with
  | nil => intro _ d; simp [parseBlocks12]
  | cons b bs ih =>
    intro h d
    simp only [List.length_cons, List.flatMap_cons, List.append_assoc, parseBlocks12]
    rw [parseBlock12_render pad b (h b List.mem_cons_self)]
    simp only [List.map_cons, List.foldl_cons]
    exact ih (fun b' hb' => h b' (List.mem_cons_of_mem _ hb')) _

/-- ADF12: for any number of blocks with section lengths within the fixed 24/12/24/12/12 layout, the parser returns
every block's tables truncated to the stated counts, keyed by its transition (a repeated transition overwrites, as in
a Python dict). -/
theorem adf12_roundtrip (pad : α) (bs : List (Blk12 α)) (h : ∀ b ∈ bs, WF12 b) :
    parse12 lexK12 (render12 pad bs) = .ok (dictOfList (bs.map expectedBlk12)) := by
  unfold parse12 render12 dictOfList
  simp only [needLine, bind, Except.bind, opt]
  have := parseBlocks12_render pad [] bs h []
  simp only [List.append_nil] at this
  exact this

theorem parseBlocks12_short (pad : α) (m : Nat) :
    ∀ (bs : List (Blk12 α)), (∀ b ∈ bs, WF12 b) → ∀ d,
      parseBlocks12 lexK12 (bs.length + (m + 1)) (bs.flatMap (renderBlk12 pad)) d = .error .value := by
  intro bs
  induction bs with
  | nil => intro _ d; simp [parseBlocks12, parseBlock12, needLine, bind, Except.bind]
  | cons b bs ih =>
    intro h d
    have : (b :: bs).length + (m + 1) = (bs.length + (m + 1)) + 1 := by simp only [List.length_cons]; omega
    rw [this]
    simp only [List.flatMap_cons, parseBlocks12]
    rw [parseBlock12_render pad b (h b List.mem_cons_self)]
    exact ih (fun b' hb' => h b' (List.mem_cons_of_mem _ hb')) _

/-- ADF12: a file whose first line announces more blocks than it holds is rejected (`ValueError` from the empty
header line), not returned short -/
theorem adf12_absent_block_rejected (pad : α) (bs : List (Blk12 α)) (h : ∀ b ∈ bs, WF12 b) (k : Nat) (hk : bs.length < k) :
    parse12 lexK12 (.count k :: bs.flatMap (renderBlk12 pad)) = .error .value := by
  obtain ⟨m, rfl⟩ : ∃ m, k = bs.length + (m + 1) := ⟨k - bs.length - 1, by omega⟩
  unfold parse12
  simp only [needLine, bind, Except.bind, opt]
  exact parseBlocks12_short pad m bs h []

/-- non-vacuity: an ADF12 block with 7 energies (not a multiple of 6), parsed by evaluation -/
def sample12 : Blk12 Nat where
  up := 8
  lo := 7
  qefref := 1
  refs := [2, 3, 4, 5, 6]
  ener := [10, 11, 12, 13, 14, 15, 16]
  qener := fun i => 100 + i
  tiev := [20]
  qtiev := fun i => 200 + i
  densi := [30, 31]
  qdensi := fun i => 300 + i
  zeff := [40]
  qzeff := fun _ => 400
  bmag := [50]
  qbmag := fun _ => 500

example : parse12 (lexK12 (α := Nat)) (render12 0 [sample12])
    = .ok [((8, 7), { eb := [10, 11, 12, 13, 14, 15, 16], ti := [20], ni := [30, 31], z := [40], b := [50],
                      qeb := [100, 101, 102, 103, 104, 105, 106], qti := [200], qni := [300, 301], qz := [400], qb := [500],
                      ebref := 2, tiref := 3, niref := 4, zref := 5, bref := 6, qref := 1 })] := by decide

example : WF12 sample12 := ⟨rfl, by decide, by decide, by decide, by decide, by decide⟩

/-! ## ADF11 -/
section adf11
variable {ν : Type} [DecidableEq ν] (neg : α → Bool)

section views11
variable (n : Nat) (z : Option Nat) (k : Nat) (xs : List α) (hh : Hdr11 ν)
@[simp] theorem v11_cdash : (lexK11 (ν := ν) neg).cdash (.dashes n z) = true := rfl
@[simp] theorem v11_cdash_nums : (lexK11 (ν := ν) neg).cdash (.nums xs) = false := rfl
@[simp] theorem v11_c1dash0 : (lexK11 (ν := ν) neg).c1dash (.dashes 0 z) = false := rfl
@[simp] theorem v11_c1dash1 : (lexK11 (ν := ν) neg).c1dash (.dashes 1 z) = true := rfl
@[simp] theorem v11_c01dash0 : (lexK11 (ν := ν) neg).c01dash (.dashes 0 z) = true := rfl
@[simp] theorem v11_c01dash1 : (lexK11 (ν := ν) neg).c01dash (.dashes 1 z) = true := rfl
@[simp] theorem v11_dash0 : (lexK11 (ν := ν) neg).dash (.dashes 0 z) = true := rfl
@[simp] theorem v11_dash_nums : (lexK11 (ν := ν) neg).dash (.nums xs) = false := rfl
@[simp] theorem v11_conly : (lexK11 (α := α) (ν := ν) neg).conly .cOnly = true := rfl
@[simp] theorem v11_conly_nums : (lexK11 (ν := ν) neg).conly (.nums xs) = false := rfl
@[simp] theorem v11_conly_dashes : (lexK11 (α := α) (ν := ν) neg).conly (.dashes n z) = false := rfl
@[simp] theorem v11_z1 : (lexK11 (α := α) (ν := ν) neg).z1 (.dashes n (some k)) = some (some k) := rfl
@[simp] theorem v11_z1_none : (lexK11 (α := α) (ν := ν) neg).z1 (.dashes n none) = none := rfl
@[simp] theorem v11_header : (lexK11 (α := α) (ν := ν) neg).header (.hdr hh) = some hh := rfl
@[simp] theorem v11_digit0_dashes : (lexK11 (α := α) (ν := ν) neg).digit0 (.dashes n z) = false := rfl
end views11

theorem tokensOf_nums (ls : List (List α)) :
    tokensOf (lexK11 (ν := ν) neg) (ls.map .nums) = some ls.flatten := by
  induction ls with
  | nil => rfl
  | cons c ls ih => simp only [List.map_cons, tokensOf, ih, List.flatten_cons]; rfl

theorem flatten_flatMap_chunk {β : Type} (l : List β) (f : β → List α) :
    (l.flatMap fun j => chunk 8 (f j)).flatten = l.flatMap f := by
  induction l with
  | nil => rfl
  | cons a l ih => simp only [List.flatMap_cons, List.flatten_append, ih, chunk_flatten' (by omega : 0 < 8)]

theorem dataLines11_eq (nNe nTe : Nat) (b : Blk11 α) :
    dataLines11 (ν := ν) nNe nTe b
      = ((List.range nTe).flatMap fun j => chunk 8 ((List.range nNe).map fun i => b.rate i j)).map .nums := by
  unfold dataLines11
  rw [List.map_flatMap]

theorem tokens_dataLines (nNe nTe : Nat) (b : Blk11 α) :
    tokensOf (lexK11 (ν := ν) neg) (dataLines11 nNe nTe b)
      = some ((List.range nTe).flatMap fun j => (List.range nNe).map fun i => b.rate i j) := by
  rw [dataLines11_eq, tokensOf_nums, flatten_flatMap_chunk]

theorem reshapeSwap_table (nNe nTe : Nat) (rate : Nat → Nat → α) :
    reshapeSwap nTe nNe ((List.range nTe).flatMap fun j => (List.range nNe).map fun i => rate i j)
      = some (tabulate nNe nTe rate) := by
  unfold reshapeSwap tabulate
  rw [if_pos (length_flatMap_range nTe nNe (fun j i => rate i j))]
  congr 1
  apply map_range_congr
  intro i hi
  apply filterMap_range_some
  intro j hj
  exact getElem?_flatMap_range nTe nNe (fun j i => rate i j) j i hj hi

/-- data lines are accumulated into the open block -/
theorem loop11_data (h : Hdr11 ν) (vec : Option (List α)) (rest : List (K11 α ν)) :
    ∀ (ds : List (List α)) (acc : List (K11 α ν)) (ion : Nat) (rates : List (Nat × Block11 α)),
      loop11 (lexK11 neg) h vec (ds.map .nums ++ rest) { acc := some acc, ion := ion, rates := rates }
        = loop11 (lexK11 neg) h vec rest { acc := some (acc ++ ds.map .nums), ion := ion, rates := rates } := by
  intro ds
  induction ds with
  | nil => intro acc ion rates; simp
  | cons d ds ih =>
    intro acc ion rates
    simp only [List.map_cons, List.cons_append, loop11]
    have : (lexK11 (ν := ν) neg).cdash (.nums d) = false := rfl
    simp only [this, Bool.false_eq_true, if_false, Option.map_some]
    rw [ih]
    simp

theorem loop11_dataLines (h : Hdr11 ν) (vec : Option (List α)) (rest : List (K11 α ν)) (nNe nTe : Nat) (b : Blk11 α)
    (ion : Nat) (rates : List (Nat × Block11 α)) :
    loop11 (lexK11 neg) h vec (dataLines11 nNe nTe b ++ rest) { acc := some [], ion := ion, rates := rates }
      = loop11 (lexK11 neg) h vec rest { acc := some (dataLines11 nNe nTe b), ion := ion, rates := rates } := by
  rw [dataLines11_eq, loop11_data]
  simp

/-- closing an open block whose accumulated lines are the data lines of `cur` -/
theorem loop11_blocks (t : Tab11 α ν) (h : Hdr11 ν) (hNe : h.nNe = t.ne.length) (hTe : h.nTe = t.te.length) :
    ∀ (bs : List (Blk11 α)) (cur : Blk11 α) (rates : List (Nat × Block11 α)),
      loop11 (lexK11 neg) h (some (t.ne ++ t.te))
          (bs.flatMap (renderBlk11 t.ne.length t.te.length) ++ endLines11 t.altEnd)
          { acc := some (dataLines11 t.ne.length t.te.length cur), ion := cur.z1, rates := rates }
        = .ok (((cur :: bs).map (expectedBlk11 t)).foldl (fun d kv => dictSet d kv.1 kv.2) rates) := by
  intro bs
  induction bs with
  | nil =>
    intro cur rates
    cases hA : t.altEnd <;>
      simp [endLines11, loop11, tokens_dataLines, hNe, hTe, reshapeSwap_table, expectedBlk11]
  | cons b bs ih =>
    intro cur rates
    simp only [List.flatMap_cons, renderBlk11, List.cons_append, List.append_assoc]
    rw [loop11]
    simp only [v11_cdash, if_true, tokens_dataLines, hNe, hTe, reshapeSwap_table, v11_c1dash0, Bool.false_eq_true, if_false,
      v11_c01dash0, v11_z1]
    have hnext : ∀ (nxt : K11 α ν) (tl : List (K11 α ν)),
        dataLines11 t.ne.length t.te.length b ++ (bs.flatMap (renderBlk11 t.ne.length t.te.length) ++ endLines11 t.altEnd) = nxt :: tl →
        (lexK11 (ν := ν) neg).conly nxt = false := by
      intro nxt tl he
      rw [dataLines11_eq] at he
      rcases hd : ((List.range t.te.length).flatMap fun j => chunk 8 ((List.range t.ne.length).map fun i => b.rate i j)) with _ | ⟨d, ds⟩
      · rw [hd] at he
        cases bs with
        | nil =>
          cases hA : t.altEnd <;> simp [endLines11, hA] at he <;> (obtain ⟨rfl, _⟩ := he; rfl)
        | cons b' bs' =>
          simp [renderBlk11] at he
          obtain ⟨rfl, _⟩ := he; rfl
      · rw [hd] at he
        simp at he
        obtain ⟨rfl, _⟩ := he; rfl
    rcases hl : dataLines11 t.ne.length t.te.length b ++ (bs.flatMap (renderBlk11 t.ne.length t.te.length) ++ endLines11 t.altEnd) with _ | ⟨nxt, tl⟩
    · exfalso
      cases hA : t.altEnd <;> simp [endLines11, hA] at hl
    · simp only [hnext nxt tl hl]
      rw [← hl, loop11_dataLines, ih]
      simp [expectedBlk11, List.take_left', List.drop_left']

theorem splitAtDash_vec (z : Option Nat) (rest : List (K11 α ν)) :
    ∀ (ds : List (List α)),
      splitAtDash (lexK11 neg) (ds.map .nums ++ .dashes 0 z :: rest) = some (ds.map .nums, .dashes 0 z :: rest) := by
  intro ds
  induction ds with
  | nil => simp [splitAtDash]
  | cons d ds ih => simp [splitAtDash, ih]

/-- the line that the resolved-file probe `re.match(r"\s*[0-9]+", lines[3])` looks at in an unresolved file -/
def probeLine (t : Tab11 α ν) : List α := if 8 < t.ne.length then (t.ne.drop 8).take 8 else t.te.take 8

theorem line3_unresolved (t : Tab11 α ν) (hres : t.resolved = none) (hne : t.ne ≠ []) (hte : t.te ≠ []) :
    (render11 t)[3]? = some (.nums (probeLine t)) := by
  unfold render11 probeLine
  simp only [hres, List.append_nil, List.cons_append, List.nil_append, List.append_assoc]
  rw [chunk_cons (by omega) hne]
  by_cases h8 : 8 < t.ne.length
  · have hd : t.ne.drop 8 ≠ [] := by
      intro h0
      have : (t.ne.drop 8).length = 0 := by rw [h0]; rfl
      simp only [List.length_drop] at this; omega
    rw [chunk_cons (by omega) hd]
    simp [h8]
  · have hd : t.ne.drop 8 = [] := List.drop_eq_nil_of_le (by omega)
    rw [hd, chunk_nil, chunk_cons (by omega) hte]
    simp [h8]

theorem vec_tokens (t : Tab11 α ν) :
    tokensOf (lexK11 (ν := ν) neg) ((chunk 8 t.ne).map K11.nums ++ (chunk 8 t.te).map K11.nums) = some (t.ne ++ t.te) := by
  rw [← List.map_append, tokensOf_nums, List.flatten_append, chunk_flatten' (by omega), chunk_flatten' (by omega)]

/-- after the header and the probe: the density-then-temperature vector, then the block loop -/
theorem parse11_body (t : Tab11 α ν) (h : Hdr11 ν) (hNe : h.nNe = t.ne.length) (hTe : h.nTe = t.te.length)
    (b : Blk11 α) (bs : List (Blk11 α)) :
    body11 (lexK11 neg) h ((chunk 8 t.ne).map K11.nums ++ ((chunk 8 t.te).map K11.nums
            ++ ((b :: bs).flatMap (renderBlk11 t.ne.length t.te.length) ++ endLines11 t.altEnd)))
      = .ok (dictOfList ((b :: bs).map (expectedBlk11 t))) := by
  unfold body11
  simp only [List.flatMap_cons, renderBlk11, List.cons_append, List.append_assoc]
  rw [← List.append_assoc, ← List.map_append, splitAtDash_vec]
  simp only [List.map_append, vec_tokens]
  rw [loop11]
  simp only [v11_cdash, if_true, v11_z1]
  rw [loop11_dataLines, loop11_blocks neg t h hNe hTe]
  rfl

/-- ADF11 round trip under the explicit hypothesis that the fourth line of an unresolved file passes the resolved-file
probe (the form that held before the fix of the probe; `adf11_roundtrip` below discharges the hypothesis). -/
theorem adf11_roundtrip_of_probe (t : Tab11 α ν) (hne : t.ne ≠ []) (hte : t.te ≠ []) (hb : t.blocks ≠ [])
    (hprobe : t.resolved = none → (lexK11 (ν := ν) neg).digit0 (.nums (probeLine t)) = true) :
    parse11 (lexK11 neg) t.z t.name (render11 t) = .ok (dictOfList (t.blocks.map (expectedBlk11 t))) := by
  obtain ⟨b, bs, hbs⟩ : ∃ b bs, t.blocks = b :: bs := by
    cases hb' : t.blocks with
    | nil => exact absurd hb' hb
    | cons b bs => exact ⟨b, bs, rfl⟩
  unfold parse11
  have h0 : (render11 t)[0]? = some (.hdr { z := t.z, nNe := t.ne.length, nTe := t.te.length, zmin := t.zmin, zmax := t.zmax, name := t.name }) := by
    simp [render11]
  simp only [h0, opt, bind, Except.bind, v11_header, bne_self_eq_false, beq_self_eq_true, Bool.not_true, Bool.or_self,
    Bool.false_eq_true, if_false]
  cases hres : t.resolved with
  | some m =>
    have h3 : (render11 t)[3]? = some (.dashes 0 none) := by simp [render11, hres]
    have hdrop : (render11 t).drop 4 = (chunk 8 t.ne).map .nums ++ ((chunk 8 t.te).map .nums
        ++ ((b :: bs).flatMap (renderBlk11 t.ne.length t.te.length) ++ endLines11 t.altEnd)) := by
      simp [render11, hres, hbs]
    simp only [h3, v11_digit0_dashes, Bool.false_eq_true, if_false, hdrop]
    rw [hbs]
    exact parse11_body neg t { z := t.z, nNe := t.ne.length, nTe := t.te.length, zmin := t.zmin, zmax := t.zmax, name := t.name } rfl rfl b bs
  | none =>
    have h3 := line3_unresolved t hres hne hte
    have hdrop : (render11 t).drop 2 = (chunk 8 t.ne).map .nums ++ ((chunk 8 t.te).map .nums
        ++ ((b :: bs).flatMap (renderBlk11 t.ne.length t.te.length) ++ endLines11 t.altEnd)) := by
      simp [render11, hres, hbs]
    simp only [h3, hprobe hres, if_true, hdrop]
    rw [hbs]
    exact parse11_body neg t { z := t.z, nNe := t.ne.length, nTe := t.te.length, zmin := t.zmin, zmax := t.zmax, name := t.name } rfl rfl b bs

/-- the probe hypothesis holds when the first token of the probed line is not negative … -/
theorem probe_nonneg (x : α) (xs : List α) (h : neg x = false) :
    (lexK11 (ν := ν) neg).digit0 (.nums (x :: xs)) = true := by
  simp [lexK11, h]

/-- … and for every numeric line once the probe's regular expression accepts a sign -/
theorem probe_after_fix (hfix : Cherab.Gen.AdfLex.probeAcceptsMinus = true) (x : α) (xs : List α) :
    (lexK11 (ν := ν) neg).digit0 (.nums (x :: xs)) = true := by
  simp [lexK11, hfix]

/-- the probe of the current source accepts a leading minus sign: read off /repo by the translator on every run.
Reverting the fix of `parse/adf11.py` regenerates `probeAcceptsMinus := false` and this no longer builds. -/
theorem probe_fixed : Cherab.Gen.AdfLex.probeAcceptsMinus = true := by decide

theorem probeLine_ne (t : Tab11 α ν) (hne : t.ne ≠ []) (hte : t.te ≠ []) : probeLine t ≠ [] := by
  unfold probeLine
  by_cases h8 : 8 < t.ne.length
  · simp only [h8, if_true]
    intro h0
    have : ((t.ne.drop 8).take 8).length = 0 := by rw [h0]; rfl
    simp only [List.length_take, List.length_drop] at this; omega
  · simp only [h8, if_false]
    intro h0
    have : (t.te.take 8).length = 0 := by rw [h0]; rfl
    have := List.length_pos_iff.mpr hte
    simp only [List.length_take] at *; omega

/-- **ADF11 round trip** (resolved and unresolved files, any grid sizes ≥ 1, any number ≥ 1 of charge-state blocks, both
terminator styles, any sign of any value): the parser returns, for every `Z1` block, the density vector, the
temperature vector and `rates[i_ne][i_te]`.  Proved through the generated flag `probe_fixed`. -/
theorem adf11_roundtrip (t : Tab11 α ν) (hne : t.ne ≠ []) (hte : t.te ≠ []) (hb : t.blocks ≠ []) :
    parse11 (lexK11 neg) t.z t.name (render11 t) = .ok (dictOfList (t.blocks.map (expectedBlk11 t))) := by
  apply adf11_roundtrip_of_probe neg t hne hte hb
  intro _
  obtain ⟨x, xs, hx⟩ : ∃ x xs, probeLine t = x :: xs := by
    cases h : probeLine t with
    | nil => exact absurd h (probeLine_ne t hne hte)
    | cons x xs => exact ⟨x, xs, rfl⟩
  rw [hx]
  exact probe_after_fix neg probe_fixed x xs

/-- element-header check: a file whose header names another element (atomic number or name) is rejected -/
theorem wrong_element_rejected (t : Tab11 α ν) (elemZ : Nat) (elemName : ν) (h : elemZ ≠ t.z ∨ elemName ≠ t.name) :
    parse11 (lexK11 neg) elemZ elemName (render11 t) = .error .value := by
  unfold parse11
  have h0 : (render11 t)[0]? = some (.hdr { z := t.z, nNe := t.ne.length, nTe := t.te.length, zmin := t.zmin, zmax := t.zmax, name := t.name }) := by
    simp [render11]
  simp only [h0, opt, bind, Except.bind, v11_header]
  rcases h with h | h
  · simp [h]
  · simp [h]

/-- … and the matching header is necessary and sufficient for getting past the check -/
theorem element_check_iff (t : Tab11 α ν) (elemZ : Nat) (elemName : ν) (hne : t.ne ≠ []) (hte : t.te ≠ []) (hb : t.blocks ≠ []) :
    (∃ r, parse11 (lexK11 neg) elemZ elemName (render11 t) = .ok r) ↔ (elemZ = t.z ∧ elemName = t.name) := by
  constructor
  · rintro ⟨r, hr⟩
    by_contra hc
    have : elemZ ≠ t.z ∨ elemName ≠ t.name := by
      by_cases h1 : elemZ = t.z
      · right; intro h2; exact hc ⟨h1, h2⟩
      · left; exact h1
    rw [wrong_element_rejected neg t elemZ elemName this] at hr
    cases hr
  · rintro ⟨rfl, rfl⟩
    exact ⟨_, adf11_roundtrip neg t hne hte hb⟩

end adf11

/-! ### axis order, charge convention, dictionaries -/

theorem tabulate_get (n m : Nat) (f : Nat → Nat → α) (i j : Nat) (hi : i < n) (hj : j < m) :
    (tabulate n m f)[i]?.bind (·[j]?) = some (f i j) := by
  simp [tabulate, hi, hj]

/-- **axis order**: entry `[i_ne][i_te]` of the parsed ADF11 table is the value the file stores for density `i_ne`,
temperature `i_te` (the file stores one row per temperature) -/
theorem axis_order {ν : Type} (t : Tab11 α ν) (b : Blk11 α) (i j : Nat) (hi : i < t.ne.length) (hj : j < t.te.length) :
    (expectedBlk11 t b).2.rates[i]?.bind (·[j]?) = some (b.rate i j) ∧ (expectedBlk11 t b).2.ne = t.ne ∧ (expectedBlk11 t b).2.te = t.te :=
  ⟨tabulate_get _ _ _ i j hi hj, rfl, rfl⟩

/-- the same for ADF15 (one row per density, `rate[i_ne][i_te]`) and ADF21/22 (`sen[i_e][i_n]`, stored per density) -/
theorem axis_order15 {ω : Type} (b : Blk15 α ω) (i j : Nat) (hi : i < b.ne.length) (hj : j < b.te.length) :
    (rateOfBlk15 b).rate[i]?.bind (·[j]?) = some (b.rate i j) := tabulate_get _ _ _ i j hi hj

theorem axis_order2x (t : Tab2x α) (i j : Nat) (hi : i < t.eb.length) (hj : j < t.dt.length) :
    (expected2x t).sen[i]?.bind (·[j]?) = some (t.sv i j) := tabulate_get _ _ _ i j hi hj

section dict
variable {κ β : Type} [BEq κ] [LawfulBEq κ]

theorem dictSet_new (d : List (κ × β)) (k : κ) (v : β) (h : k ∉ d.map (·.1)) : dictSet d k v = d ++ [(k, v)] := by
  induction d with
  | nil => rfl
  | cons kv d ih =>
    obtain ⟨k', v'⟩ := kv
    simp only [List.map_cons, List.mem_cons, not_or] at h
    simp only [dictSet, List.cons_append]
    rw [if_neg (fun e => h.1 (eq_of_beq e).symm), ih h.2]

theorem foldl_dictSet_nodup (l : List (κ × β)) :
    ∀ (d : List (κ × β)), (d.map (·.1) ++ l.map (·.1)).Nodup →
      l.foldl (fun d kv => dictSet d kv.1 kv.2) d = d ++ l := by
  induction l with
  | nil => intro d _; simp
  | cons kv l ih =>
    intro d h
    simp only [List.foldl_cons]
    have hk : kv.1 ∉ d.map (·.1) := by
      intro hmem
      rw [List.nodup_append] at h
      exact h.2.2 _ hmem _ (by simp) rfl
    rw [dictSet_new d kv.1 kv.2 hk, ih]
    · simp
    · simp only [List.map_append, List.map_cons, List.map_nil, List.append_assoc, List.cons_append, List.nil_append]
      simpa using h

/-- with pairwise distinct keys a dictionary built by insertion is the list itself -/
theorem dictOfList_nodup (l : List (κ × β)) (h : (l.map (·.1)).Nodup) : dictOfList l = l := by
  have := foldl_dictSet_nodup l [] (by simpa using h)
  simpa [dictOfList] using this

theorem dictGet_absent (l : List (κ × β)) (k : κ) (h : k ∉ l.map (·.1)) : dictGet l k = none := by
  induction l with
  | nil => rfl
  | cons kv l ih =>
    obtain ⟨k', v'⟩ := kv
    simp only [List.map_cons, List.mem_cons, not_or] at h
    simp only [dictGet]
    rw [if_neg (fun e => h.1 (eq_of_beq e).symm), ih h.2]

end dict

/-- which ADF11 classes are shifted: exactly scd, plt (and pls): ADAS indexes their blocks by the charge of the *product*
ion (`Z1`), cherab by the charge of the ion the process starts from -/
theorem charge_offset (c : Class11) :
    c.chargeCorrection = if c = .scd ∨ c = .plt ∨ c = .pls then -1 else 0 := by
  cases c <;> decide

/-- **charge convention**: `_notation_adf11_adas2cherab` re-keys every block `Z1 ↦ Z1 + correction` and leaves the
tables as they are (their conversions are the fixed tags `convNe11`, `convTe11`, `convRate11`); for a file with pairwise
distinct `Z1` nothing is lost or merged. -/
theorem charge_convention (c : Class11) (rates : List (Nat × Block11 α)) (h : (rates.map (·.1)).Nodup) :
    notation11 c rates
      = rates.map fun kb => ((kb.1 : Int) + c.chargeCorrection, { ne := kb.2.ne, te := kb.2.te, rates := kb.2.rates }) := by
  unfold notation11
  have hfold : ∀ (l : List (Nat × Block11 α)) (d : List (Int × Rate11 α)),
      l.foldl (fun d kb => dictSet d ((kb.1 : Int) + c.chargeCorrection) ({ ne := kb.2.ne, te := kb.2.te, rates := kb.2.rates } : Rate11 α)) d
      = (l.map fun kb => (((kb.1 : Int) + c.chargeCorrection), ({ ne := kb.2.ne, te := kb.2.te, rates := kb.2.rates } : Rate11 α))).foldl
          (fun d kv => dictSet d kv.1 kv.2) d := by
    intro l
    induction l with
    | nil => intro d; rfl
    | cons a l ih => intro d; simp only [List.foldl_cons, List.map_cons]; exact ih _
  rw [hfold]
  have hk : ((rates.map fun kb => (((kb.1 : Int) + c.chargeCorrection), ({ ne := kb.2.ne, te := kb.2.te, rates := kb.2.rates } : Rate11 α))).map (·.1)).Nodup := by
    rw [List.map_map]
    have : ((fun x : Int × Rate11 α => x.1) ∘ fun kb : Nat × Block11 α => (((kb.1 : Int) + c.chargeCorrection), ({ ne := kb.2.ne, te := kb.2.te, rates := kb.2.rates } : Rate11 α)))
        = (fun n : Nat => (n : Int) + c.chargeCorrection) ∘ (·.1) := rfl
    rw [this, ← List.map_map]
    exact List.Nodup.map (fun a b hab => by simpa using hab) h
  exact dictOfList_nodup _ hk

/-- **ADF11 as installed** (`install_adf11*` = `parse_adf11` then `_notation_adf11_adas2cherab`): for a file with pairwise
distinct `Z1`, every block arrives under charge `Z1 + correction` with the file's density vector, temperature vector and
`rate[i_ne][i_te]` table (to be read with the conversions `convs11installed`: 10^x·10⁶, 10^x, 10^x·10⁻⁶). -/
theorem adf11_installed {ν : Type} [DecidableEq ν] (neg : α → Bool) (c : Class11) (t : Tab11 α ν)
    (hne : t.ne ≠ []) (hte : t.te ≠ []) (hb : t.blocks ≠ []) (hnd : (t.blocks.map (·.z1)).Nodup) :
    (parse11 (lexK11 neg) t.z t.name (render11 t)).map (notation11 c)
      = .ok (t.blocks.map fun b => ((b.z1 : Int) + c.chargeCorrection,
              { ne := t.ne, te := t.te, rates := tabulate t.ne.length t.te.length b.rate })) := by
  rw [adf11_roundtrip neg t hne hte hb]
  have hk : (t.blocks.map (expectedBlk11 t)).map (·.1) = t.blocks.map (·.z1) := by rw [List.map_map]; rfl
  rw [dictOfList_nodup _ (by rw [hk]; exact hnd)]
  simp only [Except.map]
  rw [charge_convention c _ (by rw [hk]; exact hnd), List.map_map]
  rfl

/-- scd block `Z1 = z` is stored as the ionisation rate of charge `z − 1`; acd block `Z1 = z` as the recombination
rate of charge `z` -/
example : Class11.scd.chargeCorrection = -1 ∧ Class11.plt.chargeCorrection = -1 ∧ Class11.acd.chargeCorrection = 0
    ∧ Class11.ccd.chargeCorrection = 0 ∧ Class11.prb.chargeCorrection = 0 ∧ Class11.prc.chargeCorrection = 0 := by decide

/-- a charge state that the file does not contain is not invented by the parser -/
theorem adf11_absent_block {ν : Type} (t : Tab11 α ν) (z : Nat) (h : z ∉ t.blocks.map (·.z1)) (hnd : (t.blocks.map (·.z1)).Nodup) :
    dictGet (dictOfList (t.blocks.map (expectedBlk11 t))) z = none := by
  have hk : (t.blocks.map (expectedBlk11 t)).map (·.1) = t.blocks.map (·.z1) := by
    rw [List.map_map]; rfl
  rw [dictOfList_nodup _ (by rw [hk]; exact hnd)]
  exact dictGet_absent _ z (by rw [hk]; exact h)

/-! ## ADF15 -/
section adf15
variable {ω σ : Type} [DecidableEq σ]

/-- what the index section of the file says: (type, transition, ISEL, wavelength) per index line; in the full dialect the
two level numbers are looked up in the configuration table -/
def entries15 (t : Tab15 α ω σ) : List (Entry15 ω σ) :=
  match t.dialect with
  | .full _ => t.idx.filterMap (entryFOf (cfgTable t))
  | _ => t.idx.map entryNOf

/-- which calls of `parse_adf15` read which header dialect: hydrogen-style index (`header_format='hydrogen'`, element
hydrogen, or the `bnd#` fallback for one-electron ions), hydrogen-like (`header_format='hydrogen-like'` or a
one-electron ion), full configuration (everything else) -/
def Selects (s : Sel15) : Dialect → Prop
  | .hydrogen => (s.headerFormat = some .hydrogen ∨ s.isHydrogen = true)
      ∨ (s.headerFormat = none ∧ s.isHydrogen = false ∧ s.oneElectron = true ∧ s.bnd = true)
  | .hydrogenLike => s.headerFormat ≠ some .hydrogen ∧ s.isHydrogen = false
      ∧ (s.headerFormat = some .hydrogenLike ∨ s.oneElectron = true)
  | .full _ => s.headerFormat = none ∧ s.isHydrogen = false ∧ s.oneElectron = false

structure WF15 (t : Tab15 α ω σ) : Prop where
  idx_ne : t.idx ≠ []
  cfg_l : ∀ c ∈ t.cfgs, c.l ≤ 13
  levels : ∀ dot, t.dialect = .full dot → ∀ e ∈ t.idx, (entryFOf (cfgTable t) e).isSome

/-- **ISEL → transition map** for the three header dialects -/
theorem scrape_render (t : Tab15 α ω σ) (s : Sel15) (hsel : Selects s t.dialect) (hwf : WF15 t) :
    scrape lexK15 s (render15 t) = .ok (entries15 t) := by
  unfold scrape entries15
  cases hd : t.dialect with
  | hydrogen =>
    rw [hd] at hsel
    rcases hsel with h | ⟨h1, h2, h3, h4⟩
    · have : (decide (s.headerFormat = some HeaderFormat.hydrogen) || s.isHydrogen) = true := by
        rcases h with h | h <;> simp [h]
      simp only [this, if_true]
      exact scrapeHydrogen_render t hd
    · have hne : t.idx.map (entryNOf (σ := σ)) ≠ [] ∨ True := Or.inr trivial
      simp only [h1, h2, h3, h4, reduceCtorEq, decide_false, Bool.or_self, Bool.false_eq_true, if_false, if_true]
      have := scrapeHydrogenLike_on_hydrogen t hd
      unfold L15 at this
      rw [this]
      exact scrapeHydrogen_render t hd
  | hydrogenLike =>
    rw [hd] at hsel
    obtain ⟨h1, h2, h3⟩ := hsel
    have hc1 : (decide (s.headerFormat = some HeaderFormat.hydrogen) || s.isHydrogen) = false := by simp [h1, h2]
    simp only [hc1, Bool.false_eq_true, if_false]
    have hr := scrapeHydrogenLike_render t hd
    unfold L15 at hr
    by_cases hhl : s.headerFormat = some HeaderFormat.hydrogenLike
    · simp only [hhl, if_true]; exact hr
    · have ho : s.oneElectron = true := by rcases h3 with h | h; exact absurd h hhl; exact h
      simp only [hhl, if_false, ho, if_true, hr]
      cases hm : t.idx.map (entryNOf (σ := σ)) with
      | nil =>
        have : t.idx = [] := by simpa using hm
        exact absurd this hwf.idx_ne
      | cons a l => rfl
  | full dot =>
    rw [hd] at hsel
    obtain ⟨h1, h2, h3⟩ := hsel
    simp only [h1, h2, h3, reduceCtorEq, decide_false, Bool.or_self, Bool.false_eq_true, if_false]
    exact scrapeFull_render t dot hd hwf.cfg_l (hwf.levels dot hd)

theorem entries15_ne (t : Tab15 α ω σ) (hwf : WF15 t) : (entries15 t).isEmpty = false := by
  unfold entries15
  obtain ⟨e, es, he⟩ : ∃ e es, t.idx = e :: es := by
    cases h : t.idx with
    | nil => exact absurd h hwf.idx_ne
    | cons e es => exact ⟨e, es, rfl⟩
  cases hd : t.dialect with
  | hydrogen => simp [he]
  | hydrogenLike => simp [he]
  | full dot =>
    have := hwf.levels dot hd e (by rw [he]; exact List.mem_cons_self)
    obtain ⟨en, hen⟩ := Option.isSome_iff_exists.mp this
    simp [he, hen]

/-- the block with `ISEL = p.2` exists in the data section -/
def present (t : Tab15 α ω σ) (p : Trans σ × Nat) : Bool := (findBlk t.blocks p.2).isSome

def ratesFor (t : Tab15 α ω σ) (cfg : List (Trans σ × Nat)) : List (Trans σ × Rate15 α) :=
  cfg.filterMap fun p => (findBlk t.blocks p.2).map fun b => (p.1, rateOfBlk15 b)

theorem extractAll_render (t : Tab15 α ω σ) (cfg : List (Trans σ × Nat)) :
    extractAll lexK15 (render15 t) cfg = if cfg.all (present t) then .ok (ratesFor t cfg) else .error .runtime := by
  induction cfg with
  | nil => rfl
  | cons p cfg ih =>
    obtain ⟨tr, k⟩ := p
    have hx := extractRate_render (σ := σ) t k
    unfold L15 at hx
    cases hf : findBlk t.blocks k with
    | none =>
      rw [hf] at hx
      simp [extractAll, hx, present, hf]
    | some b =>
      rw [hf] at hx
      have hp : present t (tr, k) = true := by simp [present, hf]
      simp only [extractAll, hx, ih, List.all_cons, hp, Bool.true_and]
      by_cases hall : cfg.all (present t) = true
      · simp [hall, ratesFor, hf]
      · have : (cfg.all (present t)) = false := by simpa using hall
        simp [this]

/-- every transition of every type refers to a block that the data section contains -/
def AllPresent (t : Tab15 α ω σ) : Prop := ∀ T, (configOf (entries15 t) T).all (present t) = true

def expected15 (t : Tab15 α ω σ) : Out15 α ω σ :=
  { excitation := ratesFor t (configOf (entries15 t) .excit),
    recombination := ratesFor t (configOf (entries15 t) .recom),
    thermalcx := ratesFor t (configOf (entries15 t) .chexc),
    wavelength := dictOfList ((entries15 t).map fun e => (e.tr, e.wl)) }

theorem parse15_render (t : Tab15 α ω σ) (s : Sel15) (hsel : Selects s t.dialect) (hwf : WF15 t) :
    parse15 lexK15 s (render15 t)
      = if (configOf (entries15 t) .excit).all (present t) && (configOf (entries15 t) .recom).all (present t)
            && (configOf (entries15 t) .chexc).all (present t)
        then .ok (expected15 t) else .error .runtime := by
  unfold parse15
  have hh : (render15 t).head? = some (.fileHeader t.blocks.length) := by rw [render15_eq]; rfl
  have hf : (lexK15 (α := α) (ω := ω) (σ := σ)).fileHeader (.fileHeader t.blocks.length) = true := rfl
  simp only [hh, opt, bind, Except.bind, hf, Bool.not_true, Bool.false_eq_true, if_false, scrape_render t s hsel hwf,
    entries15_ne t hwf, extractAll_render]
  by_cases h1 : (configOf (entries15 t) .excit).all (present t) = true
  · by_cases h2 : (configOf (entries15 t) .recom).all (present t) = true
    · by_cases h3 : (configOf (entries15 t) .chexc).all (present t) = true
      · simp [h1, h2, h3, expected15, pure, Except.pure]
      · simp [h1, h2, h3]
    · simp [h1, h2]
  · simp [h1]

/-- **ADF15 round trip** (hydrogen / hydrogen-like / full-configuration headers, EXCIT / RECOM / CHEXC blocks, any
number of blocks, any grid sizes): each index line's transition is given the tables of the data block carrying its
ISEL number — densities, temperatures and `rate[i_ne][i_te]` (`rateOfBlk15`, `axis_order15`) — grouped by type, and the
wavelength table holds the index line's wavelength. -/
theorem adf15_roundtrip (t : Tab15 α ω σ) (s : Sel15) (hsel : Selects s t.dialect) (hwf : WF15 t) (hp : AllPresent t) :
    parse15 lexK15 s (render15 t) = .ok (expected15 t) := by
  rw [parse15_render t s hsel hwf]
  simp [hp .excit, hp .recom, hp .chexc]

/-- **absent block**: if some indexed transition refers to an ISEL number that no data block carries, `parse_adf15`
raises `RuntimeError` instead of returning tables -/
theorem absent_block_rejected (t : Tab15 α ω σ) (s : Sel15) (hsel : Selects s t.dialect) (hwf : WF15 t) (hp : ¬ AllPresent t) :
    parse15 lexK15 s (render15 t) = .error .runtime := by
  rw [parse15_render t s hsel hwf]
  have : ¬ ((configOf (entries15 t) .excit).all (present t) = true ∧ (configOf (entries15 t) .recom).all (present t) = true
      ∧ (configOf (entries15 t) .chexc).all (present t) = true) := by
    rintro ⟨h1, h2, h3⟩
    apply hp
    intro T
    cases T <;> assumption
  by_cases h1 : (configOf (entries15 t) .excit).all (present t) = true
  · by_cases h2 : (configOf (entries15 t) .recom).all (present t) = true
    · by_cases h3 : (configOf (entries15 t) .chexc).all (present t) = true
      · exact absurd ⟨h1, h2, h3⟩ this
      · simp [h1, h2, h3]
    · simp [h1, h2]
  · simp [h1]

/-- **block-to-transition assignment**: when the transitions of one type are pairwise distinct, each keeps the ISEL
number of its own index line (otherwise the later line wins, as in a Python dict) -/
theorem block_to_transition (t : Tab15 α ω σ) (T : RateType)
    (hnd : (((entries15 t).filter (·.typ == T)).map (·.tr)).Nodup) :
    configOf (entries15 t) T = ((entries15 t).filter (·.typ == T)).map fun e => (e.tr, e.block) := by
  unfold configOf
  apply dictOfList_nodup
  rw [List.map_map]
  exact hnd

/-- the looked-up block is the first data block carrying that ISEL number -/
theorem extract_finds_block (t : Tab15 α ω σ) (k : Nat) :
    extractRate lexK15 (render15 t) k
      = match t.blocks.find? (fun b => b.isel == k) with
        | some b => .ok (rateOfBlk15 b)
        | none => .error .runtime :=
  extractRate_render (σ := σ) t k

end adf15

/-- non-vacuity of the ADF15 theorems: a full-configuration file with two blocks (3×2 and 1×1), index without the dot -/
def sample15 : Tab15 Nat Nat Nat where
  blocks := [{ isel := 1, wl := 1215, typ := .excit, ne := [1, 2, 3], te := [4, 5], rate := fun i j => 10 * i + j },
             { isel := 2, wl := 6561, typ := .recom, ne := [7], te := [8], rate := fun _ _ => 99 }]
  cfgs := [{ id := 1, conf := 11, spin := 2, l := 0, j := 5 }, { id := 2, conf := 12, spin := 2, l := 1, j := 15 }]
  idx := [{ isel := 1, wl := 121567, up := 2, lo := 1, typ := .excit }, { isel := 2, wl := 656280, up := 2, lo := 1, typ := .recom }]
  dialect := .full false

example : parse15 lexK15 ⟨none, false, false, false⟩ (render15 sample15)
    = .ok { excitation := [((.cfg 12 2 1 15, .cfg 11 2 0 5), { ne := [1, 2, 3], te := [4, 5], rate := [[0, 1], [10, 11], [20, 21]] })],
            recombination := [((.cfg 12 2 1 15, .cfg 11 2 0 5), { ne := [7], te := [8], rate := [[99]] })],
            thermalcx := [],
            wavelength := [((.cfg 12 2 1 15, .cfg 11 2 0 5), 656280)] } := by decide

example : WF15 sample15 ∧ Selects ⟨none, false, false, false⟩ sample15.dialect ∧ AllPresent sample15 := by
  refine ⟨⟨by decide, by decide, ?_⟩, ⟨rfl, rfl, rfl⟩, ?_⟩
  · intro dot _; decide
  · intro T; cases T <;> decide

/-- … and dropping the second data block makes the same call fail with RuntimeError -/
def sample15short : Tab15 Nat Nat Nat := { sample15 with blocks := sample15.blocks.take 1 }

example : parse15 lexK15 ⟨none, false, false, false⟩ (render15 sample15short) = .error .runtime
    ∧ ¬ AllPresent sample15short := by
  refine ⟨by decide, fun h => ?_⟩
  have := h .recom
  revert this
  decide

/-- non-vacuity for ADF21/22: 2 energies × 3 densities, 1 temperature -/
def sample2x : Tab2x Nat where
  zt := 1
  spec := 0
  svref := 9
  tref := 8
  eref := 7
  dref := 6
  eb := [1, 2]
  dt := [3, 4, 5]
  tt := [10]
  svt := fun _ => 11
  sv := fun i j => 100 * i + j

example : (parse2x (lexK2x (α := Nat)) (render2x sample2x)).toOption.map (·.sen) = some [[0, 1, 2], [100, 101, 102]] := by decide

/-! ## tie to the source literals (Gen/AdfLex.lean is regenerated from /repo on every run) -/

/-- every regular expression, constant column slice, `readvalues(n, per_line)` call, `/ 10` and conversion factor of
the anchored sources is still the one that the text layer (`Model/AdfText.lean`) and the harness transcribe -/
theorem lex_literals_pinned :
    Cherab.Gen.AdfLex.regexes = Cherab.Adf.Text.pinnedRegexes
    ∧ Cherab.Gen.AdfLex.slices = Cherab.Adf.Text.pinnedSlices
    ∧ Cherab.Gen.AdfLex.readvaluesCalls = Cherab.Adf.Text.pinnedReadvalues
    ∧ Cherab.Gen.AdfLex.divisions = Cherab.Adf.Text.pinnedDivisions
    ∧ Cherab.Gen.AdfLex.conversionFactors = Cherab.Adf.Text.pinnedFactors := by
  refine ⟨by decide, by decide, by decide, by decide, by decide⟩

/-- `install_files` and the installers are still the tables transcribed in the model -/
theorem dispatch_table_pinned :
    Cherab.Gen.AdfLex.dispatch = installDispatch ∧ Cherab.Gen.AdfLex.installers = installerTable := by
  refine ⟨by decide, by decide⟩

/-- **bulk install dispatch**: every configuration key runs exactly the installer of its own name and hands on
`repository_path` / `adas_path` / `download`; every installer is reachable; no key runs two installers -/
theorem dispatch_sound :
    (∀ e ∈ installDispatch, e.2.1 = "install_" ++ e.1
        ∧ e.2.2 = "download=download repository_path=repository_path adas_path=adas_path")
    ∧ installDispatch.map (·.2.1) = installerTable.map (·.1)
    ∧ (installDispatch.map (·.1)).Nodup := by
  refine ⟨by decide, by decide, by decide⟩

/-- no two installers write the same repository family, each ADF11 installer uses the notation class of its own name, and
each parses with the parser of its format -/
theorem installers_separate :
    (installerTable.map (·.2.2.2)).Nodup
    ∧ (∀ e ∈ installerTable, e.2.1 = "parse_adf11" → e.1 = "install_adf11" ++ e.2.2.1)
    ∧ (∀ e ∈ installerTable, e.2.1 ≠ "parse_adf11" → e.1 = "install_" ++ String.ofList (e.2.1.toList.drop 6) ∧ e.2.2.1 = "") := by
  refine ⟨by decide, by decide, by decide⟩

example : installFilesTargets "ADF11prc" = ["install_adf11prc"]
    ∧ installerWrites "install_adf11prc" = some "update_cx_power_rates(repository_path)" := by decide

/-! ## text layer: Fortran fields (proof-deepening pass) -/
section textlayer
open Cherab.Adf.Text

/-- **fixed-column slicing inverts the Fortran list write**: for any list of tokens that are non-empty, blank-free and at
most 9 characters long, written in consecutive 10-column fields, the slice `line[1+10k : 10(k+1)]` of `readvalues`,
stripped of blanks (as `float()` / `int()` do), is exactly the `k`-th token — for every `k` and every number of tokens. -/
theorem fixed_field_roundtrip (toks : List Cs) (h : ∀ t ∈ toks, WFTok 9 t) (k : Nat) (hk : k < toks.length) :
    trim (slice (fieldsLine 10 toks) (1 + 10 * k) (10 * (k + 1))) = toks[k] := by
  unfold slice fieldsLine
  have hu : ∀ l ∈ toks.map (rjC 10), l.length = 10 := by
    intro l hl
    obtain ⟨t, ht, rfl⟩ := List.mem_map.mp hl
    exact length_rjC 10 t (by have := (h t ht).len; omega)
  have h9 : 10 * (k + 1) - (1 + 10 * k) = 9 := by omega
  rw [h9, Nat.add_comm 1 (10 * k), ← List.drop_drop, drop_flatten_uniform 10 k _ hu, ← List.map_drop]
  have hd : toks.drop k = toks[k] :: toks.drop (k + 1) := List.drop_eq_getElem_cons hk
  have ht := h toks[k] (List.getElem_mem hk)
  obtain ⟨m, hm⟩ : ∃ m, 10 - toks[k].length = m + 1 := ⟨10 - toks[k].length - 1, by have := ht.len; omega⟩
  rw [hd, List.map_cons, List.flatten_cons]
  have hf : rjC 10 toks[k] = ' ' :: (List.replicate m ' ' ++ toks[k]) := by simp [rjC, hm, List.replicate_succ]
  rw [hf, List.cons_append, List.drop_succ_cons, List.drop_zero]
  have hl : (List.replicate m ' ' ++ toks[k]).length = 9 := by simp; have := ht.len; omega
  rw [List.take_left' hl]
  exact trim_padded m toks[k] ht.ne ht.nows

/-- **blank splitting inverts the Fortran list write** (ADF11 `np.fromstring`, ADF15 `line.split()`): tokens that are
non-empty, blank-free and shorter than the field width come back exactly, in order, whatever their number -/
theorem ws_tokens_roundtrip (w : Nat) (hw : 0 < w) (toks : List Cs) (h : ∀ t ∈ toks, WFTok (w - 1) t) :
    splitWs (fieldsLine w toks) = toks := by
  unfold splitWs
  cases toks with
  | nil => simp [fieldsLine, splitWs.go]
  | cons t ts =>
    have ht := h t List.mem_cons_self
    obtain ⟨m, hm⟩ : ∃ m, w - t.length = m := ⟨_, rfl⟩
    have hfl : fieldsLine w (t :: ts) = List.replicate m ' ' ++ (t ++ fieldsLine w ts) := by simp [fieldsLine, rjC, hm]
    rw [hfl, go_blanks, go_tok _ t [] ht.nows, List.append_nil,
      go_fields w ts (fun t' ht' => h t' (List.mem_cons_of_mem _ ht')) hw t.reverse (by simpa using ht.ne), List.reverse_reverse]

theorem trim_map (f : Char → Char) (hf : ∀ c, isWs (f c) = isWs c) (cs : Cs) : trim (cs.map f) = (trim cs).map f := by
  have hdw : ∀ l : Cs, (l.map f).dropWhile isWs = (l.dropWhile isWs).map f := by
    intro l
    induction l with
    | nil => rfl
    | cons c l ih =>
      simp only [List.map_cons, List.dropWhile_cons, hf]
      split <;> simp [ih]
  unfold trim
  rw [hdw, ← List.map_reverse, hdw, List.map_reverse]

/-- the string-level views of the model see exactly the written tokens: the `k`-th `readvalues` field of a rendered data
line is the `k`-th token after `replace('D','E')`, and the blank-separated tokens of a rendered line are the tokens -/
theorem data_line_views (xs : List String) (h : ∀ x ∈ xs, WFTok 9 x.toList) (k : Nat) (hk : k < xs.length) :
    trim (fieldCs (dataLine 10 xs) k) = replaceDE (xs[k]).toList
    ∧ splitWs (dataLine 10 xs).toList = xs.map String.toList := by
  have h' : ∀ t ∈ xs.map String.toList, WFTok 9 t := by
    intro t ht; obtain ⟨x, hx, rfl⟩ := List.mem_map.mp ht; exact h x hx
  constructor
  · unfold fieldCs dataLine replaceDE
    rw [String.toList_ofList, trim_map _ (by intro c; by_cases hc : c = 'D' <;> simp [hc, isWs]),
      fixed_field_roundtrip _ h' k (by simpa using hk)]
    simp
  · unfold dataLine
    rw [String.toList_ofList]
    exact ws_tokens_roundtrip 10 (by omega) _ (by simpa using h')

/-- non-vacuity: three tokens, the middle one negative and 9 characters wide -/
example : trim (slice (fieldsLine 10 ["1.5E+03".toList, "-11.12345".toList, "7".toList]) 11 20) = "-11.12345".toList
    ∧ splitWs (fieldsLine 9 ["1.00E+07".toList, "2.5E-09".toList]) = ["1.00E+07".toList, "2.5E-09".toList] := by decide

example : WFTok 9 "-11.12345".toList := ⟨by decide, by decide, by decide⟩

end textlayer

/-! ### bulk dispatch for every key spelling -/

theorem filter_key_le_one {β : Type} (x : String) : ∀ (l : List (String × β)), (l.map (·.1)).Nodup →
    (l.filter fun e => e.1 == x).length ≤ 1 := by
  intro l
  induction l with
  | nil => intro _; simp
  | cons a l ih =>
    intro h
    rw [List.map_cons, List.nodup_cons] at h
    by_cases ha : (a.1 == x) = true
    · have hx : a.1 = x := eq_of_beq ha
      have hnone : l.filter (fun e => e.1 == x) = [] := by
        rw [List.filter_eq_nil_iff]
        intro e he hex
        exact h.1 (by rw [hx, ← eq_of_beq hex]; exact List.mem_map_of_mem he)
      simp [ha, hnone]
    · simp only [List.filter_cons, ha, Bool.false_eq_true, if_false]
      exact ih h.2

/-- **`install_files`, every key spelling**: whatever string is used as configuration key, at most one installer runs and
it is the installer named after the lower-cased key (lifting of the decided table `dispatch_sound` to all inputs) -/
theorem install_files_dispatch (key : String) :
    (installFilesTargets key).length ≤ 1
    ∧ ∀ f ∈ installFilesTargets key, f = "install_" ++ String.ofList (key.toList.map Char.toLower) := by
  unfold installFilesTargets
  constructor
  · rw [List.length_map]
    exact filter_key_le_one _ _ dispatch_sound.2.2
  · intro f hf
    obtain ⟨e, he, rfl⟩ := List.mem_map.mp hf
    rw [List.mem_filter] at he
    rw [← eq_of_beq he.2]
    exact (dispatch_sound.1 e he.1).1

example : installFilesTargets "AdF22BmE" = ["install_adf22bme"] ∧ installFilesTargets "adf22bms" = [] := by decide

/-! ### which copy of the file is parsed (`_locate_adas_file`) -/

/-- candidate list → first available -/
theorem locate_first_available (d a ia ic : Bool) :
    locateAdasFile d a ia ic = (locateCandidates d a).find? (placeAvailable ia ic) := by
  cases d <;> cases a <;> cases ia <;> cases ic <;> rfl

/-- **the file the caller points to wins**: when `adas_path` is given and holds the file, that copy is parsed —
whatever `download` says and whatever sits in the repository's download cache -/
theorem adas_path_wins (d ic : Bool) : locateAdasFile d true true ic = some .adas := by
  cases d <;> cases ic <;> rfl

/-- the cache and the network are only consulted with `download=True`; the cache copy is preferred to a download; a file
found nowhere without `download` is reported as missing -/
theorem locate_download_rules (a ia ic : Bool) :
    (locateAdasFile false a ia ic = if a && ia then some .adas else none)
    ∧ (a && ia = false → locateAdasFile true a ia true = some .cache)
    ∧ (a && ia = false → locateAdasFile true a ia false = some .network) := by
  cases a <;> cases ia <;> cases ic <;> simp [locateAdasFile]

/-- the classes that the model shifts by −1 are exactly the strings listed in `_notation_adf11_adas2cherab` -/
theorem charge_list_pinned (c : Class11) :
    (c.chargeCorrection = -1) ↔ c.code ∈ (Cherab.Gen.AdfLex.membershipLists.lookup "install.py:_notation_adf11_adas2cherab:in1").getD [] := by
  cases c <;> decide

/-- the normalisation of `sen`, `st`, `sref` in the model is the `normalisation=` argument of the three front ends -/
theorem norm_pinned (k : Kind2x) :
    (Cherab.Gen.AdfLex.normalisations.lookup k.key)
      = some (match k.norm with | .cm3 => "Cm3ToM3.conversion_factor" | _ => "1") := by
  cases k <;> decide

/-! ### the resolved-file probe: the former counter-example -/

def negI (x : Int) : Bool := decide (x < 0)

/-- unresolved file, one density (7.0), one temperature below 1 eV (log10 = −1), one block -/
def witness11 : Tab11 Int Nat where
  z := 6
  name := 0
  zmin := 1
  zmax := 1
  ne := [7]
  te := [-1]
  resolved := none
  blocks := [{ z1 := 1, rate := fun _ _ => -10 }]
  altEnd := false

/-- Conditional lemma about the *pre-fix* probe `\\s*[0-9]+` (fixed in /repo 0745ea0): whenever the generated table says
that the probe rejects a leading minus sign, this unresolved file (≤ 8 densities, first temperature below 1 eV) is taken
for a resolved one and the parser silently returns empty density and temperature vectors.  Vacuous on the fixed tree;
it becomes the live witness again if the fix is reverted (then `probe_fixed` stops building and the corpus case
re-finds `C08:adf11:unresolved-file-4th-line-negative-read-as-resolved`).  Not in the audited set. -/
theorem adf11_unresolved_misdetected : Cherab.Gen.AdfLex.probeAcceptsMinus = false →
    parse11 (lexK11 negI) 6 0 (render11 witness11) = .ok [(1, { ne := [], te := [], rates := [[-10]] })]
    ∧ parse11 (lexK11 negI) 6 0 (render11 witness11) ≠ .ok (dictOfList (witness11.blocks.map (expectedBlk11 witness11))) := by
  decide

/-- the former counter-example is now read correctly (by evaluation of the model with the generated flag) -/
theorem adf11_former_witness_roundtrip :
    parse11 (lexK11 negI) 6 0 (render11 witness11) = .ok [(1, { ne := [7], te := [-1], rates := [[-10]] })] := by
  decide

/-- non-vacuity of the round trip: an unresolved 2×2 file with non-negative fourth line satisfies all hypotheses -/
example : parse11 (lexK11 negI) 6 0 (render11 { witness11 with ne := [7, 8], te := [0, 1] })
    = .ok [(1, { ne := [7, 8], te := [0, 1], rates := [[-10, -10], [-10, -10]] })] := by decide

end Cherab.Props.C08
