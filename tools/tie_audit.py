#!/usr/bin/env python3
"""tie_audit.py — static cross-reference of the Lean sources: which executable model definitions are
 (a) reachable from the native driver of a property (so the correspondence run K can exercise them against /repo), and
 (b) mentioned by an audited theorem of that property.
Reports, per property, definitions that theorems talk about but no driver reaches ("proved, not tied": the theorem is about
model code that is never run against the implementation — unless it is a specification-side definition) and definitions the
driver reaches that no theorem mentions ("tied, not proved").  Purely syntactic (token occurrence of the definition's short
name inside the importing files), so it over-approximates references; it is a work list for the builders, not evidence.
usage: tools/tie_audit.py [--md notes/TIE_AUDIT.md]"""
import os, re, sys, json, collections
D = os.path.dirname(os.path.dirname(os.path.abspath(__file__)))
L = os.path.join(D, 'lean')
DEF = re.compile(r'^\s*(?:@\[[^\]]*\]\s*)*(?:(?:private|protected|noncomputable|partial|unsafe)\s+)*(def|abbrev|structure|inductive|class)\s+([A-Za-z_][\w\.\'!?]*)', re.M)
THM = re.compile(r'^\s*(?:@\[[^\]]*\]\s*)*(?:(?:private|protected)\s+)*(theorem|lemma)\s+([A-Za-z_][\w\.\'!?]*)', re.M)
TOK = re.compile(r"[A-Za-z_][\w'!?]*")


def strip_comments(t):
    t = re.sub(r'/-.*?-/', ' ', t, flags=re.S)
    return re.sub(r'--[^\n]*', ' ', t)


def read(p):
    return strip_comments(open(p, encoding='utf-8').read())


def imports(p):
    return re.findall(r'^import\s+([\w\.]+)', open(p, encoding='utf-8').read(), re.M)


def mod_path(m):
    return os.path.join(L, *m.split('.')) + '.lean'


def closure_imports(p, seen=None):
    seen = seen if seen is not None else set()
    for m in imports(p):
        if m.startswith('Cherab.') and m not in seen:
            seen.add(m)
            q = mod_path(m)
            if os.path.exists(q):
                closure_imports(q, seen)
    return seen


def blocks(text, rx):
    """(kind, name, body) for each top-level declaration matched by rx; body runs to the next declaration of any kind"""
    ms = sorted(list(DEF.finditer(text)) + list(THM.finditer(text)), key=lambda m: m.start())
    out = []
    for i, m in enumerate(ms):
        end = ms[i + 1].start() if i + 1 < len(ms) else len(text)
        if rx.match(text[m.start():m.end()] if False else m.group(0)):
            out.append((m.group(1), m.group(2), text[m.end():end]))
    return out


def main():
    model_defs = {}          # module -> {short: set(tokens in body)}
    for sub in ('Model', 'Gen'):
        d = os.path.join(L, 'Cherab', sub)
        for f in sorted(os.listdir(d)):
            if f.endswith('.lean'):
                t = read(os.path.join(d, f))
                defs = {}
                for kind, name, body in blocks(t, DEF):
                    defs[name.split('.')[-1]] = set(TOK.findall(body))
                model_defs['Cherab.%s.%s' % (sub, f[:-5])] = defs
    rep = {}
    for drv in sorted(os.listdir(os.path.join(L, 'Driver'))):
        if not re.match(r'C\d\d\.lean$', drv):
            continue
        P = drv[:-5]
        dp = os.path.join(L, 'Driver', drv)
        mods = [m for m in closure_imports(dp) if m in model_defs]
        names = {}
        for m in mods:
            for n, toks in model_defs[m].items():
                names.setdefault(n, set()).update(toks)
        # reachable from the driver
        work = set(TOK.findall(read(dp))) & set(names)
        reach = set()
        while work:
            n = work.pop()
            if n in reach:
                continue
            reach.add(n)
            work |= (names[n] & set(names)) - reach
        # mentioned by theorems of the property (Props/Cxx*.lean and the Lemmas they import)
        thm_mentions = collections.defaultdict(list)
        props = [f for f in sorted(os.listdir(os.path.join(L, 'Cherab', 'Props'))) if f.startswith(P)]
        audited = set()
        for f in sorted(os.listdir(os.path.join(L, 'Cherab', 'Audit'))):
            if f.startswith(P):
                audited |= set(x.split('.')[-1] for x in re.findall(r'#print axioms\s+([\w\.\'!?]+)', open(os.path.join(L, 'Cherab', 'Audit', f)).read()))
        pmods = set()
        for f in props:
            pmods |= {m for m in closure_imports(os.path.join(L, 'Cherab', 'Props', f)) if m.startswith('Cherab.Model') or m.startswith('Cherab.Gen')}
        pnames = {}
        for m in pmods:
            for n, toks in model_defs.get(m, {}).items():
                pnames.setdefault(n, set()).update(toks)
        for f in props:
            t = read(os.path.join(L, 'Cherab', 'Props', f))
            for kind, name, body in blocks(t, THM):
                if name.split('.')[-1] in audited:
                    for n in set(TOK.findall(body)) & set(pnames):
                        thm_mentions[n].append(name)
        proved = set(thm_mentions)
        allnames = set(names) | set(pnames)
        rep[P] = dict(model_modules=sorted(set(mods) | pmods), model_defs=len(allnames), audited_theorems=len(audited),
                      tied=len(reach), proved=len(proved), tied_and_proved=len(reach & proved),
                      proved_not_tied=sorted(proved - reach), tied_not_proved=sorted(reach - proved),
                      neither=sorted(allnames - reach - proved))
    return rep


if __name__ == '__main__':
    rep = main()
    if '--md' in sys.argv:
        out = sys.argv[sys.argv.index('--md') + 1]
        with open(os.path.join(D, out), 'w') as f:
            f.write('# Tie audit: model definitions reached by the drivers (K) vs mentioned by audited theorems (T)\n\n')
            f.write('Generated by `tools/tie_audit.py` (syntactic; a work list, not evidence).  "proved, not tied" = theorems mention the\n'
                    'definition but the native driver of the property never reaches it, so no correspondence run compares it with /repo\n'
                    '(fine for specification-side definitions, a gap for transcriptions of code).  "tied, not proved" = the driver runs it\n'
                    'against the code but no audited theorem of the property mentions it.\n\n')
            f.write('| property | model defs | tied (K) | proved (T) | both | proved, not tied | tied, not proved | neither |\n|---|---|---|---|---|---|---|---|\n')
            for P, r in rep.items():
                f.write('| %s | %d | %d | %d | %d | %d | %d | %d |\n' % (P, r['model_defs'], r['tied'], r['proved'], r['tied_and_proved'],
                                                                       len(r['proved_not_tied']), len(r['tied_not_proved']), len(r['neither'])))
            for P, r in rep.items():
                f.write('\n## %s\n* proved, not tied: %s\n* tied, not proved: %s\n* neither: %s\n' % (
                    P, ', '.join('`%s`' % x for x in r['proved_not_tied']) or '—', ', '.join('`%s`' % x for x in r['tied_not_proved']) or '—',
                    ', '.join('`%s`' % x for x in r['neither']) or '—'))
    else:
        json.dump(rep, sys.stdout, indent=1)
