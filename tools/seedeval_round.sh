#!/bin/bash
# usage: tools/seedeval_round.sh <prefix> <Cxx> [...]   e.g. tools/seedeval_round.sh /tmp/mut6_ C03 C07
# First evaluation of freshly delivered seeded changes <prefix><Cxx>/_out/<i>/ with the tools of THIS copy of /verif
# (run it from a frozen, built snapshot of /verif while builders edit the live one).  Sequential per call; start several calls in
# parallel for several properties.
D="$(cd "$(dirname "${BASH_SOURCE[0]}")/.." && pwd)"
PFX=$1; shift
for P in "$@"; do
  for i in 1 2 3; do
    d=$PFX$P/_out/$i
    [ -f $d/patch.diff ] || continue
    [ -f $d/eval.json ] && continue
    echo "== $P $i: $("$D"/tools/seedeval.sh $P $d 2>&1 | tail -1)"
  done
done
