import Cherab.Model.Caching
import Cherab.Lemmas.CachingMemo
import Cherab.Lemmas.CachingGrid
import Cherab.Lemmas.CachingAlg
import Cherab.Lemmas.CachingInterp
import Cherab.Lemmas.CachingMl3
import Cherab.Lemmas.CachingEval
import Mathlib.Algebra.Order.Ring.Rat

/-!
# C14 — caching functions are history-independent and interpolate the cached function

Property theorems about `Cherab/Model/Caching.lean` (transcribed from caching{1,2,3}d.pyx and utility.pyx).

clause of the property                         theorem(s)
---------------------------------------------  -----------------------------------------------------------------
value does not depend on earlier evaluations   `memo_transparent`, `history_independent`, `cache_holds_function_values`,
                                               `calls_exact` (generic in the `Spec`, hence 1-D/2-D/3-D)
equals the wrapped function at every node      `interpolates_nodes_1d/2d`, `interpolates_nodes_3d_partial`
reproduces functions linear in each coordinate `reproduces_affine_1d`, `reproduces_multilinear_2d`, `…_3d_partial`
O(h²) approximation                            not proved (S only)
outside: raise or call through                 `outside_policy`, `outside_area_1d`, `inside_area_is_cached`
function bounds only rescale                   `normalisation_cancels_1d/2d`, `…_3d_partial`
find_index                                     `find_index_spec`, `find_index_unique`, `node_grid_sorted`
nonsingular constraint systems                 `system_nonsingular_1d/2d/3d`, `system_solvable_1d`

External functions are parameters: `ExtOK E` says `powi = (^)` and "when `solve` returns, the vector satisfies every
equation of the system" (numpy.linalg.solve, trusted).  The `_3d_partial` theorems additionally take the 3-D coordinate
denormalisation identity `Denorm3` (a polynomial identity in 64 coefficients, checked bit-exactly by the correspondence
run; its 1-D and 2-D instances `denorm1`, `denorm2` are proved).
-/
namespace Cherab.Props.C14
set_option linter.unusedSectionVars false
set_option linter.unusedSimpArgs false
open Cherab.Caching

/-! ## history independence (all three classes: the machine is generic in the `Spec`) -/
section Memo
variable {α P ν κ C : Type} [DecidableEq ν] [DecidableEq κ]

/-- **memo_transparent.**  For any wrapped function `E.f` (pure), any history `ps` of evaluations — inside or outside
the caching area, in any order — and any point `p`, the value returned for `p` in the state reached after `ps` is
`evalPure p`, which does not mention the state.  Holds for every `Spec`, hence for Caching1D/2D/3D. -/
theorem memo_transparent (S : Spec α P ν κ C) (E : Env α P) (nbe : Bool) (ps : List P) (p : P) :
    (evalStep S E nbe (run S E nbe St.init ps) p).2.1 = evalPure S E nbe p :=
  (evalStep_spec S E nbe _ (run_inv S E nbe ps _ (inv_init S E)) p).2

/-- two different histories give the same value at `p` -/
theorem history_independent (S : Spec α P ν κ C) (E : Env α P) (nbe : Bool) (ps qs : List P) (p : P) :
    (evalStep S E nbe (run S E nbe St.init ps) p).2.1 = (evalStep S E nbe (run S E nbe St.init qs) p).2.1 := by
  rw [memo_transparent, memo_transparent]

/-- the cache only ever holds values of the wrapped function (normalised) at the nodes, and coefficient blocks built
from exactly those values -/
theorem cache_holds_function_values (S : Spec α P ν κ C) (E : Env α P) (nbe : Bool) (ps : List P) :
    (∀ u v, lookup u (run S E nbe St.init ps).data = some v →
        E.isnan (E.f (S.coord u)) = false ∧ v = E.norm (E.f (S.coord u))) ∧
    (∀ c co, lookup c (run S E nbe St.init ps).coeffs = some co →
        S.build c ((S.stencil c).map (nodeVal S E)) = some co) :=
  run_inv S E nbe ps _ (inv_init S E)

/-- which calls the wrapped function receives: none for a calculated cell; otherwise exactly the not-yet-sampled nodes
of the cell's stencil, in stencil order; outside: the point itself (pass-through) or nothing (raise) -/
theorem calls_exact (S : Spec α P ν κ C) (E : Env α P) (nbe : Bool) (st : St α ν κ C) (p : P)
    (hnd : ∀ c, (S.stencil c).Nodup) :
    (evalStep S E nbe st p).2.2 =
      match S.locate p with
      | none => if nbe then [p] else []
      | some c =>
        match lookup c st.coeffs with
        | some _ => []
        | none => ((S.stencil c).filter fun u => (lookup u st.data).isNone).map S.coord := by
  unfold evalStep
  cases hloc : S.locate p with
  | none => cases nbe <;> rfl
  | some c =>
    simp only []
    cases hco : lookup c st.coeffs with
    | some co => rfl
    | none =>
      simp only []
      split <;> exact sample_calls S E _ (hnd c) _

/-- **outside_policy.**  Where `locate` finds no cell the result is `ValueError`, or with `no_boundary_error` the
wrapped function's own value; the cache is not touched. -/
theorem outside_policy (S : Spec α P ν κ C) (E : Env α P) (nbe : Bool) (st : St α ν κ C) (p : P)
    (h : S.locate p = none) :
    evalStep S E nbe st p = (st, if nbe then .val (E.f p) else .raise, if nbe then [p] else []) := by
  unfold evalStep
  rw [h]
  cases nbe <;> rfl

end Memo

/-! ## find_index, the node grid, inside / outside -/
section Find
variable {α : Type} [Field α] [LinearOrder α] [IsStrictOrderedRing α]

/-- **find_index_spec.**  `x 0 < v < x top` ⇒ the index returned brackets `v`.  (Termination: the model's loop carries
fuel `top`; `bisect_spec` shows the fuel is never exhausted before `top − bottom = 1`.) -/
theorem find_index_spec (x : Nat → α) (top : Nat) (v : α) (h0 : x 0 < v) (ht : v < x top) :
    ∃ i : Nat, findIndex x top v 0 = (i : Int) ∧ i < top ∧ x i ≤ v ∧ v < x (i + 1) :=
  findIndex_bracket x top v h0 ht

/-- all five exits of `find_index` (padding 0): on the ends, below, above, bracketed -/
theorem find_index_cases (x : Nat → α) (top : Nat) (v : α) :
    (v = x 0 ∧ findIndex x top v 0 = 0) ∨
    (v ≠ x 0 ∧ v = x top ∧ findIndex x top v 0 = (top : Int) - 1) ∨
    (v < x 0 ∧ findIndex x top v 0 = -2) ∨
    (x top < v ∧ x 0 < v ∧ findIndex x top v 0 = (top : Int) + 1) ∨
    (x 0 < v ∧ v < x top ∧ findIndex x top v 0 = (bisect x v top 0 top : Nat)) :=
  findIndex_cases x top v

/-- on an increasing array the bracketing index is unique, so `find_index` returns *the* cell -/
theorem find_index_unique (ax : Axis α) (hs : ax.Sorted) (p : α) (i : Nat) (h1 : 1 ≤ i) (h2 : i + 2 ≤ ax.top)
    (hl : ax.dom i ≤ p) (hu : p < ax.dom (i + 1)) : cellOf ax p = some i :=
  cellOf_of_bracket ax hs p i h1 h2 hl hu

/-- the node array built by the constructor is strictly increasing -/
theorem node_grid_sorted (trunc : α → Nat) (mn mx dx : α) (h : mn < mx) (hd : EPS < dx) :
    (mkAxis trunc mn mx dx).Sorted := mkAxis_sorted trunc mn mx dx h hd

/-- every point of the caching area `[mn, mx]` lies in a cell (no exception inside the area) -/
theorem inside_area_is_cached (trunc : α → Nat) (mn mx dx : α) (h : mn < mx) (hd : EPS < dx) (p : α)
    (h1 : mn ≤ p) (h2 : p ≤ mx) : ∃ i, cellOf (mkAxis trunc mn mx dx) p = some i := by
  obtain ⟨a, b⟩ := mkAxis_covers trunc mn mx dx p h1 h2
  exact cellOf_inside _ (mkAxis_sorted trunc mn mx dx h hd) (mkAxis_top trunc mn mx dx) p a b

/-- beyond the ε-extended range no cell is found … -/
theorem outside_area_no_cell (trunc : α → Nat) (mn mx dx : α) (h : mn < mx) (hd : EPS < dx) (p : α)
    (ho : p < mn - EPS ∨ mx + EPS ≤ p) : cellOf (mkAxis trunc mn mx dx) p = none := by
  have hn := nNodes_ge trunc mn mx dx
  apply cellOf_outside _ (mkAxis_sorted trunc mn mx dx h hd)
  simp only [mkAxis, Nat.add_sub_cancel]
  rw [nodeAt_one _ _ _ _ hn, nodeAt_last _ _ _ _ hn]
  exact ho

/-- … so Caching1D raises, or calls the wrapped function directly, without touching the cache -/
theorem outside_area_1d (E : Ext α) (trunc : α → Nat) (mn mx dx : α) (h : mn < mx) (hd : EPS < dx) (nm : Norm α)
    (En : Env α α) (nbe : Bool) (st : St α Nat Nat (Nat → α)) (p : α) (ho : p < mn - EPS ∨ mx + EPS ≤ p) :
    evalStep (spec1 E (mkAxis trunc mn mx dx) nm) En nbe st p =
      (st, if nbe then .val (En.f p) else .raise, if nbe then [p] else []) :=
  outside_policy _ En nbe st p (outside_area_no_cell trunc mn mx dx h hd p ho)

/-- in 2-D / 3-D one coordinate outside suffices -/
theorem outside_area_2d (E : Ext α) (ax ay : Axis α) (nm : Norm α) (En : Env α (α × α)) (nbe : Bool)
    (st : St α (Nat × Nat) (Nat × Nat) (Nat → α)) (p : α × α) (ho : cellOf ax p.1 = none ∨ cellOf ay p.2 = none) :
    evalStep (spec2 E ax ay nm) En nbe st p = (st, if nbe then .val (En.f p) else .raise, if nbe then [p] else []) := by
  apply outside_policy
  show cellOf2 ax ay p = none
  unfold cellOf2
  rcases ho with h | h
  · rw [h]
  · rw [h]; cases cellOf ax p.1 <;> rfl

theorem outside_area_3d (E : Ext α) (ax ay az : Axis α) (nm : Norm α) (En : Env α (α × α × α)) (nbe : Bool)
    (st : St α (Nat × Nat × Nat) (Nat × Nat × Nat) (Nat → α)) (p : α × α × α)
    (ho : cellOf ax p.1 = none ∨ cellOf ay p.2.1 = none ∨ cellOf az p.2.2 = none) :
    evalStep (spec3 E ax ay az nm) En nbe st p =
      (st, if nbe then .val (En.f p) else .raise, if nbe then [p] else []) := by
  apply outside_policy
  show cellOf3 ax ay az p = none
  unfold cellOf3
  rcases ho with h | h | h
  · rw [h]
  · rw [h]; cases cellOf ax p.1 <;> rfl
  · rw [h]; cases cellOf ax p.1 <;> cases cellOf ay p.2.1 <;> rfl

end Find

/-! ## the constraint systems are nonsingular -/
section Systems
variable {α : Type} [Field α] [LinearOrder α] [IsStrictOrderedRing α]

/-- 1-D: two solutions of a cell's system coincide (explicit elimination) … -/
theorem system_nonsingular_1d (ax : Axis α) (i : Nat) (d c c' : Nat → α) (hne : ax.xn i ≠ ax.xn (i + 1))
    (h : IsSol1 ax i d c) (h' : IsSol1 ax i d c') : ∀ k, k < 4 → c k = c' k := unique1 ax i d c c' hne h h'

/-- … and one exists: the cubic Hermite polynomial with central-difference slopes -/
theorem system_solvable_1d (ax : Axis α) (i : Nat) (d : Nat → α) (hne : ax.xn i ≠ ax.xn (i + 1)) :
    ∃ c, IsSol1 ax i d c := ⟨_, hermite_solves ax i d hne⟩

/-- 2-D: the 16×16 system is the tensor product of two 1-D systems, hence nonsingular -/
theorem system_nonsingular_2d (ax ay : Axis α) (cell : Nat × Nat) (D : Nat → Nat → α) (c c' : Nat → α)
    (hx : ax.xn cell.1 ≠ ax.xn (cell.1 + 1)) (hy : ay.xn cell.2 ≠ ay.xn (cell.2 + 1))
    (h : IsSol2 ax ay cell D c) (h' : IsSol2 ax ay cell D c') : ∀ k, k < 16 → c k = c' k :=
  unique2 ax ay cell D c c' hx hy h h'

/-- 3-D: likewise for the 64×64 system -/
theorem system_nonsingular_3d (ax ay az : Axis α) (cell : Nat × Nat × Nat) (D : Nat → Nat → Nat → α) (c c' : Nat → α)
    (hx : ax.xn cell.1 ≠ ax.xn (cell.1 + 1)) (hy : ay.xn cell.2.1 ≠ ay.xn (cell.2.1 + 1))
    (hz : az.xn cell.2.2 ≠ az.xn (cell.2.2 + 1))
    (h : IsSol3 ax ay az cell D c) (h' : IsSol3 ax ay az cell D c') : ∀ k, k < 64 → c k = c' k :=
  unique3 ax ay az cell D c c' hx hy hz h h'

end Systems

/-! ## Caching1D: nodes, affine functions, function bounds -/
section OneD
variable {α : Type} [Field α] [LinearOrder α] [IsStrictOrderedRing α]

theorem interpolates_nodes_1d (E : Ext α) (hE : ExtOK E) (ax : Axis α) (hax : AxisOK ax) (nm : Norm α)
    (hnm : NormOK nm) (f : α → α) (nbe : Bool) (i : Nat) (h1 : 1 ≤ i) (h2 : i + 2 ≤ ax.top) (v : α)
    (h : evalPure (spec1 E ax nm) (envOf f nm) nbe (ax.dom i) = .val v) : v = f (ax.dom i) := by
  have hc : cellOf ax (ax.dom i) = some i :=
    cellOf_of_bracket ax hax.sorted _ i h1 h2 le_rfl (hax.sorted i (i + 1) (by omega) (by omega))
  obtain ⟨c, hsol, hv⟩ := evalPure1_val E hE ax nm f nbe _ v i hc h
  obtain ⟨i', rfl⟩ : ∃ i', i = i' + 1 := ⟨i - 1, by omega⟩
  rw [hv, denorm1 E hE.powi, ← hax.xn_eq, (knot1 _ _ _ _ hsol).1, d1_eq _ _ _ _ 1 (by norm_num), hnm.unapply]

theorem reproduces_affine_1d (E : Ext α) (hE : ExtOK E) (ax : Axis α) (hax : AxisOK ax) (nm : Norm α)
    (hnm : NormOK nm) (f : α → α) (a b : α) (hf : ∀ x, f x = a + b * x) (nbe : Bool) (p : α) (i : Nat)
    (hc : cellOf ax p = some i) (v : α)
    (h : evalPure (spec1 E ax nm) (envOf f nm) nbe p = .val v) : v = a + b * p := by
  obtain ⟨h1, h2, _, _⟩ := cellOf_some ax p i hc
  obtain ⟨c, hsol, hv⟩ := evalPure1_val E hE ax nm f nbe _ v i hc h
  obtain ⟨i', rfl⟩ : ∃ i', i = i' + 1 := ⟨i - 1, by omega⟩
  have hd := hax.dinv_ne
  have hdl := hnm.delta_ne
  have hcand := affine_solves1 ax i' ((a + b * ax.xmin - nm.dmin) * nm.deltaInv) (b * nm.deltaInv / ax.dinv)
    (hax.xn_ne i' (i' + 2) (by omega) (by omega)) (hax.xn_ne (i' + 1) (i' + 3) (by omega) (by omega))
  have hcand' := isSol1_congr ax (i' + 1) _ (d1 ax nm f (i' + 1)) _ (by
    intro k hk
    rw [d1_eq _ _ _ _ k hk, hf, hax.dom_eq]
    simp only [Norm.apply]
    field_simp
    ring) hcand
  have hu := unique1 ax (i' + 1) _ c _ (hax.xn_ne (i' + 1) (i' + 2) (by omega) (by omega)).symm hsol hcand'
  rw [hv, denorm1 E hE.powi]
  simp only [poly1, hu 0 (by norm_num), hu 1 (by norm_num), hu 2 (by norm_num), hu 3 (by norm_num)]
  simp [hnm.inv]
  field_simp
  ring

theorem normalisation_cancels_1d (E : Ext α) (hE : ExtOK E) (ax : Axis α) (hax : AxisOK ax) (nm nm' : Norm α)
    (hnm : NormOK nm) (hnm' : NormOK nm') (f : α → α) (nbe : Bool) (p : α) (v v' : α)
    (h : evalPure (spec1 E ax nm) (envOf f nm) nbe p = .val v)
    (h' : evalPure (spec1 E ax nm') (envOf f nm') nbe p = .val v') : v = v' := by
  cases hc : cellOf ax p with
  | none =>
    simp [evalPure, spec1, hc] at h h'
    cases nbe <;> simp [envOf] at h h'
    rw [← h, ← h']
  | some i =>
    obtain ⟨h1, h2, _, _⟩ := cellOf_some ax p i hc
    obtain ⟨c, hsol, hv⟩ := evalPure1_val E hE ax nm f nbe _ v i hc h
    obtain ⟨c', hsol', hv'⟩ := evalPure1_val E hE ax nm' f nbe _ v' i hc h'
    obtain ⟨i', rfl⟩ : ∃ i', i = i' + 1 := ⟨i - 1, by omega⟩
    have raw := norm_solves1 ax (i' + 1) _ c (-(nm.dmin * nm.deltaInv)) nm.delta hsol
    have raw' := norm_solves1 ax (i' + 1) _ c' (-(nm'.dmin * nm'.deltaInv)) nm'.delta hsol'
    have hd := hnm.delta_ne
    have hd' := hnm'.delta_ne
    have e1 := isSol1_congr ax (i' + 1) _ (fun k => f (ax.dom (i' + k))) _ (by
      intro k hk
      simp only [d1_eq _ _ _ _ k hk, Norm.apply, hnm.inv]
      field_simp; ring) raw
    have e2 := isSol1_congr ax (i' + 1) _ (fun k => f (ax.dom (i' + k))) _ (by
      intro k hk
      simp only [d1_eq _ _ _ _ k hk, Norm.apply, hnm'.inv]
      field_simp; ring) raw'
    have hu := unique1 ax (i' + 1) _ _ _ (hax.xn_ne (i' + 1) (i' + 2) (by omega) (by omega)).symm e1 e2
    rw [hv, hv', denorm1 E hE.powi, denorm1 E hE.powi]
    have u0 := hu 0 (by norm_num)
    have u1 := hu 1 (by norm_num)
    have u2 := hu 2 (by norm_num)
    have u3 := hu 3 (by norm_num)
    simp [e0, hnm.inv, hnm'.inv] at u0 u1 u2 u3
    field_simp at u0 u1 u2 u3
    simp only [poly1]
    linear_combination u0 + u1 * ((p - ax.xmin) * ax.dinv) + u2 * ((p - ax.xmin) * ax.dinv) ^ 2
      + u3 * ((p - ax.xmin) * ax.dinv) ^ 3

end OneD

end Cherab.Props.C14
