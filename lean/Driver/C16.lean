import Cherab.Drv.Proto
import Cherab.Model.Instruments
import Cherab.Model.InstrumentMachines
import Cherab.Gen.InstrumentEdges
open Cherab.Drv Cherab.Instruments Cherab.Gen.InstrumentEdges

/-! C16 driver.  Stateful part: the class-table interpreter over the generated tables (`new`, `call`); stateless part:
the arithmetic of `Model/Instruments.lean` at `Float`. -/

def ceilF (x : Float) : Int := (Float.ceil x).toInt64.toInt

def infF : Float := 1.0 / 0.0

def shapeChar : Shape → String
  | .unset => "U" | .none => "N" | .val => "V"

def names (l : List String) (ids : List Nat) : String :=
  let s := ",".intercalate (ids.map fun i => l.getD i "?")
  if s.isEmpty then "-" else s

def showSt (t : ClassTable) (s : St) : String :=
  String.join (s.sh.map shapeChar) ++ " w=" ++ names t.attrs s.written

def showRes (t : ClassTable) : Res → String
  | .ok s => "ok " ++ showSt t s
  | .ret s => "ok " ++ showSt t s
  | .attrErr a s => "AttributeError:" ++ t.attrs.getD a "?" ++ " " ++ showSt t s
  | .notImpl s => "NotImplementedError " ++ showSt t s
  | .stuck w => "stuck:" ++ w.replace " " "_"

def findTable (n : String) : Option ClassTable := allTables.find? (·.name == n)

def methodNames (t : ClassTable) : List String := t.methods.map (·.name)

/-- split `k n1 e.. n2 e..` into arrays -/
partial def takeArrays : Nat → List String → List (List Float)
  | 0, _ => []
  | k + 1, ts => match ts with
    | [] => []
    | n :: rest => let n := pN n; (rest.take n).map pF :: takeArrays k (rest.drop n)

def hexVal (c : Char) : Nat :=
  if c.isDigit then c.toNat - '0'.toNat else if 'a' ≤ c ∧ c ≤ 'f' then c.toNat - 'a'.toNat + 10 else 0

def hexDecode (s : String) : String :=
  if s == "-" then "" else
  let rec go : List Char → List Char
    | a :: b :: rest => Char.ofNat (hexVal a * 16 + hexVal b) :: go rest
    | _ => []
  String.ofList (go s.toList)

def hexDigit (n : Nat) : Char := if n < 10 then Char.ofNat ('0'.toNat + n) else Char.ofNat ('a'.toNat + n - 10)

def hexEncode (s : String) : String :=
  if s.isEmpty then "-" else
  String.ofList (s.toList.flatMap fun c => [hexDigit (c.toNat / 16), hexDigit (c.toNat % 16)])

def showSettings (s : Settings Float) : String := fFs [s.minW, s.maxW, s.step] ++ " " ++ toString s.bins

def protoLine (t : ClassTable) : String :=
  let cl := t.setters.map fun p => (methodNames t).getD p "?" ++ ":" ++ names t.attrs (clearsOf t p)
  let dp := (List.range t.attrs.length).map fun c => t.attrs.getD c "?" ++ ":" ++ names (methodNames t) (depsOf t c)
  "clears " ++ ";".intercalate cl ++ " deps " ++ ";".intercalate dp

def gapsLine (t : ClassTable) : String :=
  "wf=" ++ fB (wfB t) ++ " covered=" ++ fB (coveredB t) ++ " initTotal=" ++ fB (initTotalB t) ++ " initStatic=" ++ fB (initStaticB t)
    ++ " gaps=" ++ names t.attrs (initGaps t)
    ++ " uncovered=" ++ (let l := (uncoveredPairs t).map fun cp => t.attrs.getD cp.1 "?" ++ "<-" ++ (methodNames t).getD cp.2 "?"
                          if l.isEmpty then "-" else ",".intercalate l)
    ++ " known=" ++ names t.attrs t.knownUninit
    ++ " aliased=" ++ names t.attrs t.aliased ++ " aliasFree=" ++ fB (aliasFreeB t)

/-- value-level machine + the (angle ↦ cos, tan) values numpy produced, supplied by the harness -/
structure CtM where
  s : CTState Float
  trig : List (Float × Float × Float)

structure DSt where
  tab : Option (ClassTable × St) := none
  ctm : Option CtM := none
  spm : Option (SpState Float) := none
  plm : Option (PolyState Float) := none

/-! value-level machines of `Spectrometer` (`spm …`) and `Polychromator` (`plm …`), `Model/InstrumentMachines.lean` -/

def showFilt (f : String × PFilter Float) : String := hexEncode f.1 ++ " " ++ fFs [f.2.minW, f.2.maxW, f.2.window]

def showM : MOut Float → String
  | .done => "done"
  | .valueError => "ValueError"
  | .typeError => "TypeError"
  | .num v => "num " ++ fF v
  | .int n => "int " ++ toString n
  | .str t => "str " ++ hexEncode t
  | .arrays a => "arrays " ++ " ".intercalate (a.map fun r => toString r.length ++ " " ++ fFs r)
  | .names l => "names " ++ " ".intercalate (l.map hexEncode)
  | .filters l => "filters " ++ " ".intercalate (l.map showFilt)
  | .kwargs l => "kwargs " ++ " ".intercalate (l.map fun e => hexEncode e.1 ++ " " ++ showFilt e.2)

/-- `k (flag name min max window)*`; flag 0 = an object that is not a filter -/
def takeFilters : Nat → List String → List (Option (String × PFilter Float))
  | 0, _ => []
  | k + 1, fl :: nm :: a :: b :: c :: rest =>
    (if fl == "1" then some (hexDecode nm, ⟨pF a, pF b, pF c⟩) else none) :: takeFilters k rest
  | _, _ => []

def parseSpOp (ts : List String) : Option (SpOp Float) :=
  match ts with
  | "setW2p" :: k :: rest => some (.setW2p (takeArrays (pN k) rest))
  | ["setMbpp", v] => some (.setMbpp (pI v))
  | ["setName", v] => some (.setName (hexDecode v))
  | ["getMin"] => some .getMin
  | ["getMax"] => some .getMax
  | ["getBins"] => some .getBins
  | ["getW2p"] => some .getW2p
  | ["getWavelengths"] => some .getWavelengths
  | ["getMbpp"] => some .getMbpp
  | ["getName"] => some .getName
  | ["getClasses"] => some .getClasses
  | ["getKwargs"] => some .getKwargs
  | ["calib", dens, smin, smax] => some (.calibrate (fun a b => pF dens * (b - a)) (pF smin) (pF smax))
  | _ => none

def parsePolyOp (ts : List String) : Option (PolyOp Float) :=
  match ts with
  | "setFilters" :: k :: rest => some (.setFilters (takeFilters (pN k) rest))
  | ["setMbpw", v] => some (.setMbpw (pI v))
  | ["setName", v] => some (.setName (hexDecode v))
  | ["getMin"] => some .getMin
  | ["getMax"] => some .getMax
  | ["getBins"] => some .getBins
  | ["getFilters"] => some .getFilters
  | ["getMbpw"] => some .getMbpw
  | ["getName"] => some .getName
  | ["getClasses"] => some .getClasses
  | ["getKwargs"] => some .getKwargs
  | ["createPipelines"] => some .createPipelines
  | _ => none

def extOf (trig : List (Float × Float × Float)) : CTExt Float :=
  { sqrt := Float.sqrt,
    cos := fun a => match trig.find? (fun e => e.1.toBits == a.toBits) with | some e => e.2.1 | none => Float.cos a,
    tan := fun a => match trig.find? (fun e => e.1.toBits == a.toBits) with | some e => e.2.2 | none => Float.tan a,
    ceil := ceilF }

def takeAcc : Nat → List String → List (Float × Nat)
  | 0, _ => []
  | k + 1, w :: n :: rest => (pF w, pN n) :: takeAcc k rest
  | _, _ => []

def showOut : CTOut Float → String
  | .done => "done"
  | .valueError => "ValueError"
  | .num v => "num " ++ fF v
  | .int n => "int " ++ toString n
  | .arrays a => "arrays " ++ " ".intercalate (a.map fun r => toString r.length ++ " " ++ fFs r)
  | .names l => "names " ++ " ".intercalate (l.map hexEncode)

def parseOp (ts : List String) : Option (CTOp Float × Option (Float × Float × Float)) :=
  match ts with
  | ["setOrder", v] => some (.setOrder (pN v), none)
  | ["setGrating", v] => some (.setGrating (pF v), none)
  | ["setFocal", v] => some (.setFocal (pF v), none)
  | ["setSpacing", v] => some (.setSpacing (pF v), none)
  | ["setAngle", v, c, t] => some (.setAngle (pF v), some (pF v, pF c, pF t))
  | "setAcc" :: k :: rest => some (.setAcc (takeAcc (pN k) rest), none)
  | ["setMbpp", v] => some (.setMbpp (pN v), none)
  | ["setName", v] => some (.setName (hexDecode v), none)
  | ["getMin"] => some (.getMin, none)
  | ["getMax"] => some (.getMax, none)
  | ["getBins"] => some (.getBins, none)
  | ["getW2p"] => some (.getW2p, none)
  | ["getWavelengths"] => some (.getWavelengths, none)
  | ["getKwargs"] => some (.getKwargs, none)
  | ["calib", dens, smin, smax] => some (.calibrate (fun a b => pF dens * (b - a)) (pF smin) (pF smax), none)
  | _ => none

def step (σ : DSt) (ts : List String) : DSt × String :=
  match ts with
  | "ctm" :: "new" :: order :: g :: fl :: dx :: ang :: c :: t :: mbpp :: nm :: k :: rest =>
    let trig := [(pF ang, pF c, pF t)]
    let p : CTParams Float := ⟨pN order, pF g, pF fl, pF dx, pF ang, takeAcc (pN k) rest, pN mbpp, hexDecode nm⟩
    ({ σ with ctm := some ⟨ctFresh (extOf trig) p, trig⟩ }, "done")
  | "ctm" :: rest => match σ.ctm, parseOp rest with
    | some m, some (op, tr) =>
      let trig := match tr with | some e => e :: m.trig | none => m.trig
      let r := ctStep (extOf trig) m.s op
      ({ σ with ctm := some ⟨r.1, trig⟩ }, showOut r.2)
    | _, _ => (σ, "bad-ctm")
  | "spm" :: "new" :: mbpp :: nm :: k :: rest =>
    (match spInit (takeArrays (pN k) rest) (pI mbpp) (hexDecode nm) with
     | some s => ({ σ with spm := some s }, "done")
     | none => ({ σ with spm := none }, "ValueError"))
  | "spm" :: rest => (match σ.spm, parseSpOp rest with
    | some m, some op => let r := spStep ceilF m op; ({ σ with spm := some r.1 }, showM r.2)
    | _, _ => (σ, "bad-spm"))
  | "plm" :: "new" :: mbpw :: nm :: k :: rest =>
    (match polyInit (takeFilters (pN k) rest) (pI mbpw) (hexDecode nm) with
     | .inl s => ({ σ with plm := some s }, "done")
     | .inr e => ({ σ with plm := none }, showM e))
  | "plm" :: rest => (match σ.plm, parsePolyOp rest with
    | some m, some op => let r := polyStep ⟨ceilF, infF⟩ m op; ({ σ with plm := some r.1 }, showM r.2)
    | _, _ => (σ, "bad-plm"))
  | ["new", cls] => match findTable cls with
    | none => ({ σ with tab := none }, "no-table")
    | some t => let r := construct t; ({ σ with tab := some (t, (r.state?).getD t.blank) }, showRes t r)
  | ["call", m] => match σ.tab with
    | none => (σ, "no-instance")
    | some (t, s) => match (methodNames t).idxOf? m with
      | none => (σ, "no-method")
      | some i =>
        let r := runMethod t s i
        -- for a setter: the protocol table `clearsOf` (computed on the all-values state) must be what this call wrote
        let c := if t.setters.contains i then
            match r.state? with
            | some s' => if r.fine && (clearsOf t i).all s'.written.contains && s'.written.all (clearsOf t i).contains
                then " c=1" else " c=0"
            | none => " c=0"
          else ""
        ({ σ with tab := some (t, (r.state?).getD s) }, showRes t r ++ c)
  | ["proto", cls] => (σ, match findTable cls with | none => "no-table" | some t => protoLine t)
  | ["gaps", cls] => (σ, match findTable cls with | none => "no-table" | some t => gapsLine t)
  | "spec" :: mbpp :: k :: rest =>
    (σ, match spectralSettings ceilF (takeArrays (pN k) rest) (pN mbpp) with
        | some s => showSettings s
        | none => "ValueError")
  | "valid" :: _ :: es => (σ, fB (validEdges (es.map pF)))
  | "centres" :: _ :: es => (σ, fFs (centres (es.map pF)))
  | "poly" :: mbpw :: _ :: rest =>
    let rec fl : List Float → List (PFilter Float)
      | a :: b :: c :: r => ⟨a, b, c⟩ :: fl r
      | _ => []
    (σ, showSettings (polySettings ceilF infF (fl (rest.map pF)) (pN mbpw)))
  | ["filter", a, b] => let f := filterOf (pF a) (pF b); (σ, fFs [f.minW, f.maxW, f.window])
  | "filtertab" :: _ :: ws => (σ, match filterOfTab (ws.map pF) with
      | some f => fFs [f.minW, f.maxW, f.window]
      | none => "none")
  | ["trap", c, w] => let f := trapezoid (pF c) (pF w); (σ, fFs [f.minW, f.maxW, f.window])
  | ["ctres", cosA, tanA, g, m, dxdp, fl, wl] =>
    (σ, fF (ctResolution Float.sqrt (pF cosA) (pF tanA) (pF g) (pF m) (pF dxdp) (pF fl) (pF wl)))
  | ["ctedges", n, w0, cosA, tanA, g, m, dxdp, fl] =>
    (σ, fFs (ctEdges (ctResolution Float.sqrt (pF cosA) (pF tanA) (pF g) (pF m) (pF dxdp) (pF fl)) (pF w0) (pN n)))
  | "calib" :: n :: rest =>
    let n := pN n
    let es := (rest.take n).map pF
    let is := (rest.drop n).map pF
    let tab := (pixels es).zip is
    let integ (a b : Float) : Float :=
      match tab.find? fun e => e.1.1.toBits == a.toBits && e.1.2.toBits == b.toBits with
      | some e => e.2
      | none => 0.0 / 0.0
    (σ, fFs (calibrateEdges integ es))
  | ["calguard", smin, smax, imin, imax] =>
    (σ, match calibrate (fun _ _ => (0.0 : Float)) (pF smin) (pF smax) (pF imin) (pF imax) [] with
        | none => "ValueError" | some _ => "ok")
  | "wsum" :: n :: rest =>
    let n := pN n
    (σ, fF (weightedSum ((rest.drop n).map pF) ((rest.take n).map pF)))
  | ["specnames", nm] => (σ, " ".intercalate ((specPipelineNames (hexDecode nm)).map hexEncode))
  | "polynames" :: nm :: fs => (σ, " ".intercalate ((polyPipelineNames (hexDecode nm) (fs.map hexDecode)).map hexEncode))
  | _ => (σ, "bad-op")

def main : IO UInt32 := do
  loop step (← IO.getStdin) (← IO.getStdout) {}
  return 0
