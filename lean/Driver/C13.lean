import Cherab.Drv.Proto
import Cherab.Model.Wrappers
open Cherab.Drv Cherab.Wrappers

/-- C `fmod` for doubles: exact remainder of truncated division.  Lean has no `Float.fmod`; for the magnitudes the
harness generates (|x/p| < 2^52) `x - trunc(x/p)*p` computed with an exact product is what libm returns when
`trunc(x/p)*p` is representable; the harness only sends the driver such cases (checked on the Python side) and
otherwise supplies libm's `fmod` value itself via the `remf` command. -/
def fmodF (x p : Float) : Float :=
  let q := x / p
  let t := if q < 0 then Float.ceil q else Float.floor q
  x - t * p

def idF (x : Float) : Float := x

def step (ts : List String) : String :=
  match ts with
  -- remainder with libm fmod value supplied: "remf x p fmod(x,p)"
  | ["remf", x, p, m] => fF (remainder (fun _ _ => pF m) (pF x) (pF p))
  | ["rem", x, p] => fF (remainder fmodF (pF x) (pF p))
  | ["clamp", v, a, b] => fF (clamp (pF v) (pF a) (pF b))
  | ["sel3", s, x, y, z] =>
      match sel3 (pN s) (pF x) (pF y) (pF z) with
      | some v => fF v
      | none => "ValueError"
  | ["swz3", s0, s1, s2, x, y, z] =>
      match swizzle3 (fun a b c => [a, b, c]) (pN s0) (pN s1) (pN s2) (pF x) (pF y) (pF z) with
      | some l => fFs l
      | none => "ValueError"
  | ["slice2", ax, v, x] => fFs (slice2 (fun a b => [a, b]) (pN ax) (pF v) (pF x))
  | ["slice3", ax, v, x, y] => fFs (slice3 (fun a b c => [a, b, c]) (pN ax) (pF v) (pF x) (pF y))
  | ["axi", x, y, z] => fFs (axisymmetric Float.sqrt (fun a b => [a, b]) (pF x) (pF y) (pF z))
  | ["cyl", x, y, z] => fFs (cylindrical Float.sqrt Float.atan2 (fun a b c => [a, b, c]) (pF x) (pF y) (pF z))
  | ["rotz", c, s, a, b, d] =>
      let w := rotateZ (pF c) (pF s) (pF a, pF b, pF d); fFs [w.1, w.2.1, w.2.2]
  | ["lin", a, b, n, i] => fF (linspace (pF a) (pF b) (pN n) (pN i))
  | "poly" :: px :: py :: rest =>
      let fs := rest.map pF
      let rec pairs : List Float → List (Float × Float)
        | a :: b :: t => (a, b) :: pairs t
        | _ => []
      fB (inPolygon (pF px) (pF py) (pairs fs))
  | _ => "bad-op"

def main : IO UInt32 := do
  loop (stateless step) (← IO.getStdin) (← IO.getStdout) ()
  return 0
