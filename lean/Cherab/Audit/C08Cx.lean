import Cherab.Props.C08Cx
open Cherab.Props.C08
#print axioms cx3d_wellformed
#print axioms cx3d_entry
#print axioms cx3d_shape
#print axioms cx3d_of_block
#print axioms cx3d_rows_rejected
#print axioms cx3d_cols_rejected
#print axioms cx3d_len1_axis_repeated
#print axioms cx2dto3d_wellformed
#print axioms cx_charge_plus_one
#print axioms cx2dto3d_rejects
