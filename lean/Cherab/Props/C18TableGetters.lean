import Cherab.Props.C18
import Cherab.Gen.LaserEdges
namespace Cherab.Props.C18Table
open Cherab.Laser Cherab.Props.C18 Cherab.Gen.LaserEdges

/-- specification of the `cpdef get_*` accessors: which attribute each reports -/
def methodGetterSpec : List (String × String) :=
  [("get_min_wavelenth", "_min_wavelength"), ("get_max_wavelenth", "_max_wavelength"),
   ("get_spectral_bins", "_bins"), ("get_delta_wavelength", "_delta_wavelength")]

/-- a property `x` returns `self._x`; a `get_*` method returns the attribute of the specification -/
def getterOwnB (g : Getter) : Bool :=
  if g.isProperty then g.field == "_" ++ g.name
  else match methodGetterSpec.lookup g.name with
    | some f => g.field == f
    | none => false

theorem getter_returns_own_field : classes.all (fun t => t.getters.all getterOwnB) = true := by decide

end Cherab.Props.C18Table
