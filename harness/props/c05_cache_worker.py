"""C05 child process for the cache-history stream: histories of emissions (some with a provider that fails once at a chosen
point of `_populate_cache`) and configuration changes on one live BeamCXLine / BeamEmissionLine.  One JSON line per emission,
flushed at once, because the implementation may take the process down (the parent then reads the missing record as `broken`).

stdin: JSON list of histories  dict(id, kind='cx'|'bes', steps=['e' | 'f:<where>' | 'c:<what>', ...])
stdout: {"id", "step", "obs": 'fresh'|'stale'|'raised'|'broken', "detail"}
"""
import json
import sys


class ProviderDown(IOError):
    pass


def main():
    from raysect.core import Point3D, Vector3D
    from raysect.optical import Spectrum
    from cherab.core import Beam, Plasma, Species, Maxwellian
    from cherab.core.atomic import AtomicData, BeamCXPEC, BeamPopulationRate, BeamEmissionPEC, Line, elements
    from cherab.core.beam import BeamAttenuator
    from cherab.core.model import BeamCXLine, BeamEmissionLine
    from cherab.core.model.lineshape import LineShapeModel

    class CX(BeamCXPEC):
        def __init__(self, m, v):
            super().__init__(m)
            self.v = v

        def evaluate(self, e, t, n, z, b):
            return self.v * (1.0 + 1e-6 * e + 1e-4 * t)

    class Pop(BeamPopulationRate):
        def __init__(self, v):
            self.v = v

        def evaluate(self, e, n, t):
            return self.v

    class BES(BeamEmissionPEC):
        def __init__(self, v):
            self.v = v

        def evaluate(self, e, n, t):
            return self.v * (1.0 + 1e-6 * e)

    class Att(BeamAttenuator):
        def density(self, x, y, z):
            return 1e15

    class AD(AtomicData):
        """answers depend on the receiver / the species, so data cached for another configuration shows in the value"""
        def __init__(self):
            super().__init__()
            self.arm = None
            self.count = 0

        def _maybe(self, what):
            if self.arm == what:
                self.arm = None
                raise ProviderDown('transient failure of the atomic data provider: ' + what)

        def wavelength(self, ion, charge, transition):
            self._maybe('wavelength')
            return 500.0 + ion.atomic_number

        def beam_cx_pec(self, donor, receiver, receiver_charge, transition):
            self._maybe('pec')
            s = receiver.atomic_number
            return [CX(1, 1e-33 * s), CX(2, 3e-33 * s), CX(3, 2e-33 * s)]

        def beam_population_rate(self, beam_ion, metastable, plasma_ion, charge):
            self._maybe('pop')
            return Pop(0.1 * metastable + 0.01 * charge)

        def beam_emission_pec(self, beam_ion, plasma_ion, charge, transition):
            self.count += 1
            if self.count == 1:
                self._maybe('pec1')
            if self.count == 2:
                self._maybe('pec2')
            return BES(1e-33 * (1 + charge))

    class Shape(LineShapeModel):
        log = []
        arm = False

        def __init__(self, line, wavelength, target_species, plasma, atomic_data, *a, **kw):
            if Shape.arm:
                Shape.arm = False
                raise ProviderDown('transient failure in the line shape constructor')
            super().__init__(line, wavelength, target_species, plasma, atomic_data)
            self.tag = (line.element.name, line.charge, wavelength, target_species.element.name, target_species.charge)

        def add_line(self, radiance, point, direction, spectrum):
            Shape.log.append((radiance,) + self.tag)
            return spectrum

    def dist(n, T):
        return Maxwellian(n, T, Vector3D(1e4, 0, 0), 2 * 1.66e-27)

    def composition(scale):
        return [Species(elements.deuterium, 1, dist(1e19 * scale, 1000.0)), Species(elements.carbon, 6, dist(1e17 * scale, 900.0)),
                Species(elements.neon, 10, dist(2e16 * scale, 800.0))]

    args = (Point3D(0, 0, 1), Point3D(0.1, 0.2, 0.3), Vector3D(0, 0, 1), Vector3D(0.3, -0.4, 0.5))
    lines_cx = [Line(elements.carbon, 5, (8, 7)), Line(elements.neon, 9, (11, 10)), Line(elements.deuterium, 0, (3, 2))]

    for h in json.load(sys.stdin):
        kind = h['kind']
        ad = AD()
        plasma = Plasma()
        plasma.b_field = lambda x, y, z: Vector3D(0, 0.5, 1.0)
        plasma.electron_distribution = dist(1e19, 1000.0)
        plasma.composition = composition(1.0)
        plasma.atomic_data = ad
        beam = Beam()
        beam.atomic_data = ad
        beam.plasma = plasma
        beam.attenuator = Att()
        beam.energy = 60000.
        beam.power = 1e6
        beam.temperature = 10.
        beam.element = elements.deuterium
        state = dict(line=0, scale=1.0)

        def mk():
            if kind == 'cx':
                return BeamCXLine(lines_cx[state['line']], beam, plasma, ad, lineshape=Shape)
            return BeamEmissionLine(Line(elements.deuterium, 0, (3, 2)), beam, plasma, ad)

        def ev(model):
            Shape.log.clear()
            ad.count = 0
            sp = Spectrum(400, 900, 1)
            model.emission(*args, sp)
            return (list(Shape.log), float(sp.samples[0] * sp.delta_wavelength))

        model = mk()
        for j, step in enumerate(h['steps']):
            if step.startswith('c:'):
                what = step[2:]
                if what == 'line' and kind == 'cx':
                    state['line'] = (state['line'] + 1) % len(lines_cx)
                    model.line = lines_cx[state['line']]
                elif what == 'beam.energy':
                    beam.energy = beam.energy * 1.25
                else:
                    state['scale'] *= 1.5
                    plasma.composition = composition(state['scale'])
                continue
            rec = dict(id=h['id'], step=j)
            # announce first: if the process dies inside the call the parent knows which emission it was
            print(json.dumps(dict(id=h['id'], step=j, obs='started')), flush=True)
            if step.startswith('f:'):
                where = step[2:]
                if where == 'shape':
                    Shape.arm = True
                else:
                    ad.arm = where
            try:
                got = ev(model)
                status = 'ok'
            except ProviderDown as e:
                got, status = str(e), 'raised'
            except BaseException as e:      # noqa - an exception nobody armed: the cache was read half-filled
                got, status = '%s: %s' % (type(e).__name__, e), 'broken'
            ad.arm = None
            Shape.arm = False
            if status == 'ok':
                want = ev(mk())
                status = 'fresh' if got == want else 'stale'
                rec['detail'] = '' if got == want else 'live model: %r; model constructed now: %r' % (got, want)
            else:
                rec['detail'] = got
            rec['obs'] = status
            print(json.dumps(rec), flush=True)
    return 0


if __name__ == '__main__':
    sys.exit(main())
