/-
C02 — line shapes (cherab/core/model/lineshape/{gaussian,multiplet,zeeman,stark,doppler}.pyx,
lineshape/beam/mse.pyx, cherab/core/atomic/zeeman.pyx, cherab/core/math/integrators/integrators1d.pyx).

Mathlib-free; polymorphic over notation so that the same definitions run at `Float` in the driver and are
reasoned about over an ordered field.  Transcribed from the code as it is: statement order, operation order and
the early returns are those of the `.pyx` files.  External mathematics (`sqrt`, `pow`, `exp`, `log`, `erf`,
C `floor`/`ceil` followed by the `<int>` cast, `M_SQRT2`) travels in `Fns`; the physical constants of
`cherab/core/utility/constants.pyx` in `Consts`; the `DEF` cut-offs (`GAUSSIAN_CUTOFF_SIGMA`,
`LORENTZIAN_CUTOFF_GAMMA`) are arguments (the harness reads them from the source on every run).

A line-shape model is split the way the code is: it computes a list of *components* (kind, radiance, centre,
width) and pushes each through `add_gaussian_line` / `add_lorentzian_line` in order.
-/
namespace Cherab.LineShape

/-- raysect `Spectrum`: `delta_wavelength = (max − min) / bins` is stored, not recomputed -/
structure Spec (α : Type) where
  mn : α
  mx : α
  dl : α
  bins : Nat
  samples : List α

structure Fns (α : Type) where
  sqrt : α → α
  pow : α → α → α
  exp : α → α
  log : α → α
  erf : α → α
  floorI : α → Int      -- `<int> floor(x)`
  ceilI : α → Int       -- `<int> ceil(x)`
  sqrt2 : α             -- libc `M_SQRT2`

structure Consts (α : Type) where
  amu : α
  echarge : α
  c : α
  hc : α
  muB : α

abbrev V3 (α : Type) := α × α × α

/-- one call of `add_gaussian_line` (`lor = false`) or `add_lorentzian_line` (`lor = true`) -/
structure Comp (α : Type) where
  lor : Bool
  rad : α
  wl : α
  width : α

inductive Pol where
  | pi | sigma | no
  deriving DecidableEq, Repr

section
variable {α : Type} [Add α] [Sub α] [Mul α] [Div α] [Neg α] [Zero α] [One α] [OfScientific α] [NatCast α]
  [IntCast α] [LT α] [LE α] [DecidableLT α] [DecidableLE α] [BEq α]

/-- constants.pyx (CODATA 2018) -/
def consts : Consts α :=
  { amu := 1.66053906660e-27, echarge := 1.602176634e-19, c := 299792458.0, hc := 1239.8419738620933,
    muB := 5.78838180123e-5 }

/-! ### spectrum update -/

/-- `samples_mv[start + k] += contrib[k]` -/
def addAt : Nat → List α → List α → List α
  | _, [], xs => xs
  | _, _ :: _, [] => []
  | 0, c :: cs, x :: xs => (x + c) :: addAt 0 cs xs
  | k + 1, c :: cs, x :: xs => x :: addAt k (c :: cs) xs

/-- common skeleton of gaussian.pyx:61-76 and stark.pyx:113-125: `none` = one of the two early returns,
otherwise `(start, end)` -/
def lineRange (F : Fns α) (cut wl width : α) (s : Spec α) : Option (Int × Int) :=
  let cl := wl - cut * width
  if s.mx < cl then none else
  let cu := wl + cut * width
  if s.mn > cu then none else
  some (max 0 (F.floorI ((cl - s.mn) / s.dl)), min (s.bins : Int) (F.ceilI ((cu - s.mn) / s.dl)))

/-- the loop of gaussian.pyx:78-90 over `n` bins starting at bin `i`, `lowerI` = running `lower_integral` -/
def gaussContrib (erf : α → α) (R mn dl wl temp : α) : Nat → Int → α → List α
  | 0, _, _ => []
  | n + 1, i, lowerI =>
    let upperW := mn + dl * ((i + 1 : Int) : α)
    let upperI := erf ((upperW - wl) * temp)
    (R * 0.5 * (upperI - lowerI) / dl) :: gaussContrib erf R mn dl wl temp n (i + 1) upperI

/-- gaussian.pyx:36 `add_gaussian_line` -/
def addGaussianLine (F : Fns α) (cut R wl sigma : α) (s : Spec α) : Spec α :=
  if sigma ≤ 0 then s else
  match lineRange F cut wl sigma s with
  | none => s
  | some (st, en) =>
    let temp := 1 / (F.sqrt2 * sigma)
    let lowerW := s.mn + (st : α) * s.dl
    let lowerI := F.erf ((lowerW - wl) * temp)
    { s with samples := addAt st.toNat (gaussContrib F.erf R s.mn s.dl wl temp (en - st).toNat st lowerI) s.samples }

/-- the loop of stark.pyx:127-133; `I a b` = `integrator.evaluate(a, b)` with the Stark function installed -/
def lorentzContrib (I : α → α → α) (R mn dl : α) : Nat → Int → α → List α
  | 0, _, _ => []
  | n + 1, i, lowerW =>
    let upperW := mn + dl * ((i + 1 : Int) : α)
    (R * I lowerW upperW / dl) :: lorentzContrib I R mn dl n (i + 1) upperW

/-- stark.pyx:83 `add_lorentzian_line`; `I wl fwhm a b` integrates `StarkFunction(wl, fwhm)` over `[a, b]` -/
def addLorentzianLine (F : Fns α) (I : α → α → α → α → α) (cut R wl fwhm : α) (s : Spec α) : Spec α :=
  if fwhm ≤ 0 then s else
  match lineRange F cut wl fwhm s with
  | none => s
  | some (st, en) =>
    let lowerW := s.mn + (st : α) * s.dl
    { s with samples := addAt st.toNat (lorentzContrib (I wl fwhm) R s.mn s.dl (en - st).toNat st lowerW) s.samples }

/-! post-fix form of `add_lorentzian_line` (notes/fixes/C02-1.diff): closed-form cumulative instead of a bin quadrature.
The harness selects this variant when stark.pyx no longer calls `integrator.evaluate` inside the bin loop. -/

/-- Cython `max(a, b)` / `min(a, b)` on doubles -/
def maxv (a b : α) : α := if b > a then b else a
def minv (a b : α) : α := if b < a then b else a

/-- patched loop: `C x` = `_stark_cumulative(x, wavelength, half_width)`, clipped at the upper cut-off `cu` -/
def lorentzCdfContrib (C : α → α) (R norm mn dl cu : α) : Nat → Int → α → List α
  | 0, _, _ => []
  | n + 1, i, lowerC =>
    let upperW := mn + dl * ((i + 1 : Int) : α)
    let upperC := C (minv upperW cu)
    (R * (norm * (upperC - lowerC)) / dl) :: lorentzCdfContrib C R norm mn dl cu n (i + 1) upperC

/-- patched `add_lorentzian_line`; `G wl hw x` = signed ∫ du/(1+|u|^2.5) from 0 to (x − wl)/hw; `normC` = STARK_NORM_COEFFICIENT -/
def addLorentzianLineCdf (F : Fns α) (G : α → α → α → α) (normC cut R wl fwhm : α) (s : Spec α) : Spec α :=
  if fwhm ≤ 0 then s else
  match lineRange F cut wl fwhm s with
  | none => s
  | some (st, en) =>
    let cl := wl - cut * fwhm
    let cu := wl + cut * fwhm
    let hw := 0.5 * fwhm
    let norm := 1.0 / normC
    let lowerW := s.mn + (st : α) * s.dl
    let lowerC := G wl hw (maxv lowerW cl)
    { s with samples := addAt st.toNat (lorentzCdfContrib (G wl hw) R norm s.mn s.dl cu (en - st).toNat st lowerC) s.samples }

def addComp (F : Fns α) (I : α → α → α → α → α) (cutG cutL : α) (s : Spec α) (c : Comp α) : Spec α :=
  if c.lor then addLorentzianLine F I cutL c.rad c.wl c.width s
  else addGaussianLine F cutG c.rad c.wl c.width s

def addComps (F : Fns α) (I : α → α → α → α → α) (cutG cutL : α) (cs : List (Comp α)) (s : Spec α) : Spec α :=
  cs.foldl (addComp F I cutG cutL) s

/-! ### Stark function and Gauss–Legendre integrator -/

def absv (x : α) : α := if x < 0 then -x else x

/-- stark.pyx:44 `StarkFunction`: `normC` = `STARK_NORM_COEFFICIENT` (4·50·₂F₁(0.4, 1, 1.4, −100^2.5)) -/
def starkFunction (F : Fns α) (normC x0 fwhm x : α) : α :=
  let a := F.pow (0.5 * fwhm) 2.5
  let norm := F.pow (0.5 * fwhm) 1.5 / normC
  norm / (F.pow (absv (x - x0)) 2.5 + a)

/-- one Gauss–Legendre rule on `[c − d, c + d]`: `newval = 0; newval += w·f(c + d·x) …; newval *= d` -/
def glRule (f : α → α) (c d : α) (rule : List (α × α)) : α :=
  (rule.foldl (fun acc rw => acc + rw.2 * f (c + d * rw.1)) 0) * d

/-- integrators1d.pyx:186 `GaussianQuadrature.evaluate`: rules for orders `min_order … max_order`;
`old = none` plays `oldval = INFINITY` (the stop test cannot succeed on the first rule) -/
def gqGo (f : α → α) (rtol c d : α) : List (List (α × α)) → Option α → α → α
  | [], _, newval => newval
  | r :: rs, old, _ =>
    let nv := glRule f c d r
    match old with
    | none => gqGo f rtol c d rs (some nv) nv
    | some o => if absv (nv - o) < rtol * absv nv then nv else gqGo f rtol c d rs (some nv) nv

def gaussQuad (f : α → α) (rtol : α) (rules : List (List (α × α))) (a b : α) : α :=
  gqGo f rtol (0.5 * (a + b)) (0.5 * (b - a)) rules none 0

/-! #### `GaussianQuadrature` as an object: parameters, flat roots/weights cache, setters (integrators1d.pyx:83-184) -/

/-- `_min_order`, `_max_order`, `_rtol`, and the flat `_roots` / `_weights` arrays filled by `_build_cache` -/
structure GQ (α : Type) where
  minO : Nat
  maxO : Nat
  rtol : α
  roots : List α
  weights : List α

/-- rules for orders `mn … mx`; `table k` = `roots_legendre(k)` as (root, weight) pairs -/
def rulesFor (table : Nat → List (α × α)) (mn mx : Nat) : List (List (α × α)) :=
  (List.range (mx + 1 - mn)).map fun k => table (mn + k)

/-- `_build_cache`: orders `min_order … max_order` laid out one after the other -/
def buildRoots (table : Nat → List (α × α)) (mn mx : Nat) : List α :=
  ((rulesFor table mn mx).map fun r => r.map Prod.fst).flatten
def buildWeights (table : Nat → List (α × α)) (mn mx : Nat) : List α :=
  ((rulesFor table mn mx).map fun r => r.map Prod.snd).flatten

/-- `__init__` (arguments already validated: `1 ≤ min ≤ max`, `rtol > 0`; anything else raises) -/
def gqNew (table : Nat → List (α × α)) (mn mx : Nat) (rtol : α) : GQ α :=
  { minO := mn, maxO := mx, rtol := rtol, roots := buildRoots table mn mx, weights := buildWeights table mn mx }

inductive GQOp (α : Type) where
  | setMin (n : Int)
  | setMax (n : Int)
  | setRtol (r : α)

/-- the three property setters; a rejected value (`ValueError`) leaves the object untouched.  Returns the new state
and whether the setter raised. -/
def gqSet (table : Nat → List (α × α)) (g : GQ α) : GQOp α → GQ α × Bool
  | .setMin n =>
    if n < 1 then (g, true) else if n > (g.maxO : Int) then (g, true)
    else ({ g with minO := n.toNat, roots := buildRoots table n.toNat g.maxO, weights := buildWeights table n.toNat g.maxO }, false)
  | .setMax n =>
    if n < 1 then (g, true) else if n < (g.minO : Int) then (g, true)
    else ({ g with maxO := n.toNat, roots := buildRoots table g.minO n.toNat, weights := buildWeights table g.minO n.toNat }, false)
  | .setRtol r => if r ≤ 0 then (g, true) else ({ g with rtol := r }, false)

/-- `evaluate` reading the flat cache: `ibegin += order` is `drop order`; `k` = orders still to try -/
def gqEvalGo (f : α → α) (rtol c d : α) : List α → List α → Nat → Nat → Option α → α → α
  | _, _, _, 0, _, newval => newval
  | roots, weights, order, k + 1, old, _ =>
    let nv := glRule f c d ((roots.take order).zip (weights.take order))
    match old with
    | none => gqEvalGo f rtol c d (roots.drop order) (weights.drop order) (order + 1) k (some nv) nv
    | some o =>
      if absv (nv - o) < rtol * absv nv then nv
      else gqEvalGo f rtol c d (roots.drop order) (weights.drop order) (order + 1) k (some nv) nv

def gqEval (f : α → α) (g : GQ α) (a b : α) : α :=
  gqEvalGo f g.rtol (0.5 * (a + b)) (0.5 * (b - a)) g.roots g.weights g.minO (g.maxO + 1 - g.minO) none 0

/-! ### doppler.pyx and raysect vectors -/

def dot (a b : V3 α) : α := a.1 * b.1 + a.2.1 * b.2.1 + a.2.2 * b.2.2
def vlen (F : Fns α) (a : V3 α) : α := F.sqrt (a.1 * a.1 + a.2.1 * a.2.1 + a.2.2 * a.2.2)
def smul (a : V3 α) (m : α) : V3 α := (a.1 * m, a.2.1 * m, a.2.2 * m)
/-- `Vector3D.normalise` (zero vectors raise in raysect: outside the modelled domain) -/
def normalise (F : Fns α) (a : V3 α) : V3 α :=
  smul a (1.0 / F.sqrt (a.1 * a.1 + a.2.1 * a.2.1 + a.2.2 * a.2.2))
def cross (a v : V3 α) : V3 α :=
  (a.2.1 * v.2.2 - v.2.1 * a.2.2, a.2.2 * v.1 - v.2.2 * a.1, a.1 * v.2.1 - v.1 * a.2.1)

def dopplerShift (F : Fns α) (K : Consts α) (wl : α) (dir vel : V3 α) : α :=
  wl * (1 + dot vel (normalise F dir) / K.c)

def thermalBroadening (F : Fns α) (K : Consts α) (wl temperature aw : α) : α :=
  F.sqrt (temperature * K.echarge / (aw * K.amu)) * wl / K.c

/-! ### plasma line-shape models -/

/-- what the models sample at `point`: `wl` = `self.wavelength`, `aw` = `line.element.atomic_weight` -/
structure Env (α : Type) where
  wl : α
  aw : α
  ts : α
  vel : V3 α
  dir : V3 α
  b : V3 α
  ne : α
  te : α

def gcomp (rad wl width : α) : Comp α := { lor := false, rad := rad, wl := wl, width := width }
def lcomp (rad wl width : α) : Comp α := { lor := true, rad := rad, wl := wl, width := width }

/-- `cos_sqr = (b_field.dot(direction.normalise()) / b_magn)**2` -/
def cosSqr (F : Fns α) (e : Env α) : α :=
  let q := dot e.b (normalise F e.dir) / vlen F e.b
  q * q

/-- gaussian.pyx:120 `GaussianLine.add_line` -/
def gaussianLineComps (F : Fns α) (K : Consts α) (R : α) (e : Env α) : List (Comp α) :=
  if e.ts ≤ 0.0 then [] else
  [gcomp R (dopplerShift F K e.wl e.dir e.vel) (thermalBroadening F K e.wl e.ts e.aw)]

/-- multiplet.pyx:92 `MultipletLineShape.add_line`; `mult` = columns (wavelength, ratio) -/
def multipletComps (F : Fns α) (K : Consts α) (mult : List (α × α)) (R : α) (e : Env α) : List (Comp α) :=
  if e.ts ≤ 0.0 then [] else
  let sigma := thermalBroadening F K e.wl e.ts e.aw
  mult.map fun m => gcomp (R * m.2) (dopplerShift F K m.1 e.dir e.vel) sigma

/-- shared tail of the three Zeeman models: pi components then sigma components -/
def zeemanSplit (pol : Pol) (piC sigC : List (Comp α)) : List (Comp α) :=
  (if pol ≠ Pol.sigma then piC else []) ++ (if pol ≠ Pol.pi then sigC else [])

/-- zeeman.pyx:107 `ZeemanTriplet.add_line` -/
def zeemanTripletComps (F : Fns α) (K : Consts α) (pol : Pol) (R : α) (e : Env α) : List (Comp α) :=
  if e.ts ≤ 0.0 then [] else
  let sw := dopplerShift F K e.wl e.dir e.vel
  let sigma := thermalBroadening F K e.wl e.ts e.aw
  let bm := vlen F e.b
  if bm == 0 then
    (if pol = Pol.no then [gcomp R sw sigma] else [gcomp (0.5 * R) sw sigma])
  else
    let cos2 := cosSqr F e
    let sin2 := 1.0 - cos2
    let pe := K.hc / e.wl
    let cr := (0.25 * sin2 + 0.5 * cos2) * R
    zeemanSplit pol [gcomp (0.5 * sin2 * R) sw sigma]
      [gcomp cr (dopplerShift F K (K.hc / (pe - K.muB * bm)) e.dir e.vel) sigma,
       gcomp cr (dopplerShift F K (K.hc / (pe + K.muB * bm)) e.dir e.vel) sigma]

/-- zeeman.pyx:205 `ParametrisedZeemanTriplet.add_line` -/
def paramZeemanComps (F : Fns α) (K : Consts α) (al be ga : α) (pol : Pol) (R : α) (e : Env α) : List (Comp α) :=
  if e.ts ≤ 0.0 then [] else
  let sw := dopplerShift F K e.wl e.dir e.vel
  let sigma := thermalBroadening F K e.wl e.ts e.aw * F.sqrt (1.0 + be * be * F.pow e.ts (2.0 * ga))
  let bm := vlen F e.b
  if bm == 0 then
    (if pol = Pol.no then [gcomp R sw sigma] else [gcomp (0.5 * R) sw sigma])
  else
    let cos2 := cosSqr F e
    let sin2 := 1.0 - cos2
    let cr := (0.25 * sin2 + 0.5 * cos2) * R
    zeemanSplit pol [gcomp (0.5 * sin2 * R) sw sigma]
      [gcomp cr (dopplerShift F K (e.wl + 0.5 * al * bm) e.dir e.vel) sigma,
       gcomp cr (dopplerShift F K (e.wl - 0.5 * al * bm) e.dir e.vel) sigma]

/-- atomic/zeeman.pyx:84 `ZeemanStructure.evaluate`: raw (wavelength, ratio) values of one polarisation at
`b`; ratios are divided by their sum only when the sum is positive -/
def zeemanNormalise (raw : List (α × α)) : List (α × α) :=
  let ratioSum := raw.foldl (fun acc m => acc + m.2) 0
  if ratioSum > 0 then raw.map fun m => (m.1, m.2 / ratioSum) else raw

/-- zeeman.pyx:283 `ZeemanMultiplet.add_line`; `rawPi/rawSp/rawSm` = the component functions evaluated at |B| -/
def zeemanMultipletComps (F : Fns α) (K : Consts α) (rawPi rawSp rawSm : List (α × α)) (pol : Pol) (R : α)
    (e : Env α) : List (Comp α) :=
  if e.ts ≤ 0.0 then [] else
  let sigma := thermalBroadening F K e.wl e.ts e.aw
  let bm := vlen F e.b
  if bm == 0 then
    let sw := dopplerShift F K e.wl e.dir e.vel
    (if pol = Pol.no then [gcomp R sw sigma] else [gcomp (0.5 * R) sw sigma])
  else
    let cos2 := cosSqr F e
    let sin2 := 1.0 - cos2
    let crPi := 0.5 * sin2 * R
    let crSig := (0.25 * sin2 + 0.5 * cos2) * R
    let mk := fun (cr : α) (m : α × α) => gcomp (cr * m.2) (dopplerShift F K m.1 e.dir e.vel) sigma
    zeemanSplit pol ((zeemanNormalise rawPi).map (mk crPi))
      ((zeemanNormalise rawSp).map (mk crSig) ++ (zeemanNormalise rawSm).map (mk crSig))

/-- `c0 + Σ_{i ≥ 1} c_i · x**i`, accumulated in increasing `i` (stark.pyx:283-292, 308-310) -/
def polyGo (F : Fns α) (x : α) : List α → Nat → α → α
  | [], _, acc => acc
  | c :: cs, i, acc => polyGo F x cs (i + 1) (acc + c * F.pow x (i : α))

def polyPow (F : Fns α) (coeffs : List α) (x : α) : α :=
  match coeffs with
  | [] => 0
  | c0 :: cs => polyGo F x cs 1 c0

def fwhmPolyGauss : List α := [1.0, 0, 0.57575, 0.37902, -0.42519, -0.31525, 0.31718]
def fwhmPolyLorentz : List α := [1.0, 0.15882, 1.04388, -1.38281, 0.46251, 0.82325, -0.58026]
def weightPoly : List α := [5.14820e-04, 1.38821e+00, -9.60424e-02, -3.83995e-02, -7.40042e-03, -5.47626e-04]

/-- `_SIGMA2FWHM = 2 * sqrt(2 * log(2))` -/
def sigma2fwhm (F : Fns α) : α := 2.0 * F.sqrt (2.0 * F.log 2.0)

/-- stark.pyx:262-312: `(lorentz_weight, fwhm passed to add_lorentzian_line, sigma passed to add_gaussian_line)`
from the two widths; `none` = the "adds nothing" return -/
def starkWidths (F : Fns α) (fl fg : α) : Option (α × α × α) :=
  if fl == 0 && fg == 0 then none else
  let ff0 := if fg ≤ fl then polyPow F fwhmPolyGauss (fg / fl) * fl else polyPow F fwhmPolyLorentz (fl / fg) * fg
  let sigma0 := ff0 / sigma2fwhm F
  let x := fl / ff0
  if x < 0.01 then some (0, 0, sigma0)
  else if x > 0.999 then some (1, ff0, 0)
  else some (F.exp (polyPow F weightPoly (F.log x)), ff0, sigma0)

/-- stark.pyx:258: Lorentzian FWHM `c_ij · ne^a_ij / te^b_ij`, 0 unless `ne > 0 and te > 0` -/
def starkFl (F : Fns α) (cij aij bij : α) (e : Env α) : α :=
  if e.ne > 0 ∧ e.te > 0 then cij * F.pow e.ne aij / F.pow e.te bij else 0

/-- stark.pyx:262: Gaussian FWHM, 0 unless `ts > 0` -/
def starkFg (F : Fns α) (K : Consts α) (e : Env α) : α :=
  if e.ts > 0 then sigma2fwhm F * thermalBroadening F K e.wl e.ts e.aw else 0

/-- stark.pyx:314-345: the component calls once weight and widths are known -/
def starkTail (F : Fns α) (K : Consts α) (w : Option (α × α × α)) (pol : Pol) (R : α) (e : Env α) : List (Comp α) :=
  match w with
  | none => []
  | some (lw, ff, sigma) =>
    let gw := 1 - lw
    let sw := dopplerShift F K e.wl e.dir e.vel
    let bm := vlen F e.b
    if bm == 0 then
      let R' := if pol ≠ Pol.no then R * 0.5 else R
      [gcomp (gw * R') sw sigma, lcomp (lw * R') sw ff]
    else
      let cos2 := cosSqr F e
      let sin2 := 1.0 - cos2
      let crPi := 0.5 * sin2 * R
      let crSig := (0.25 * sin2 + 0.5 * cos2) * R
      let pe := K.hc / e.wl
      let wp := dopplerShift F K (K.hc / (pe - K.muB * bm)) e.dir e.vel
      let wm := dopplerShift F K (K.hc / (pe + K.muB * bm)) e.dir e.vel
      zeemanSplit pol [gcomp (gw * crPi) sw sigma, lcomp (lw * crPi) sw ff]
        [gcomp (gw * crSig) wp sigma, lcomp (lw * crSig) wp ff, gcomp (gw * crSig) wm sigma, lcomp (lw * crSig) wm ff]

/-- stark.pyx:252 `StarkBroadenedLine.add_line` -/
def starkComps (F : Fns α) (K : Consts α) (cij aij bij : α) (pol : Pol) (R : α) (e : Env α) : List (Comp α) :=
  starkTail F K (starkWidths F (starkFl F cij aij bij e) (starkFg F K e)) pol R e

/-! ### beam/mse.pyx -/

structure BeamEnv (α : Type) where
  wl : α
  te : α
  ne : α
  energy : α          -- beam.get_energy(), eV/amu
  b : V3 α
  beamDir : V3 α
  obsDir : V3 α
  mass : α            -- beam.get_element().atomic_weight
  temp : α            -- beam.get_temperature()
  s2p : α             -- sigma_to_pi(ne, energy)
  s1s0 : α            -- sigma1_to_sigma0(ne)
  p2p3 : α
  p4p3 : α

/-- `STARK_SPLITTING_FACTOR` -/
def starkSplittingFactor : α := 2.77e-8

/-- mse.pyx:60 `BeamEmissionMultiplet.add_line` -/
def mseComps (F : Fns α) (K : Consts α) (R : α) (e : BeamEnv α) : List (Comp α) :=
  if e.te ≤ 0.0 then [] else
  if e.ne ≤ 0.0 then [] else
  let recipAmu := 1 / K.amu
  let speed := F.sqrt (2.0 * e.energy * K.echarge * recipAmu)
  let bv := smul (normalise F e.beamDir) speed
  let efield := vlen F (cross bv e.b)
  let split := absv (starkSplittingFactor * efield)
  let cw := dopplerShift F K e.wl e.obsDir bv
  let sigma := thermalBroadening F K e.wl e.temp e.mass
  let d := 1 / (1 + e.s2p)
  let iSig := e.s2p * d * R
  let iPi := 0.5 * d * R
  let s0 := 1 / (e.s1s0 + 1)
  let s1 := 0.5 * e.s1s0 * s0
  let p3 := 1 / (1 + e.p2p3 + e.p4p3)
  let p2 := e.p2p3 * p3
  let p4 := e.p4p3 * p3
  [gcomp (iSig * s0) cw sigma, gcomp (iSig * s1) (cw + split) sigma, gcomp (iSig * s1) (cw - split) sigma,
   gcomp (iPi * p2) (cw + 2.0 * split) sigma, gcomp (iPi * p2) (cw - 2.0 * split) sigma,
   gcomp (iPi * p3) (cw + 3.0 * split) sigma, gcomp (iPi * p3) (cw - 3.0 * split) sigma,
   gcomp (iPi * p4) (cw + 4.0 * split) sigma, gcomp (iPi * p4) (cw - 4.0 * split) sigma]

end
end Cherab.LineShape
