"""Lean side: build property theorems (T), audit axioms, forbidden-token grep, run the native driver."""
import fcntl
import os
import re
import subprocess
import time

from .util import LEAN

LOCK = os.path.join(LEAN, '.lake.lock')
BIN = os.path.join(LEAN, '.lake', 'build', 'bin')
ALLOWED_AXIOMS = {'propext', 'Classical.choice', 'Quot.sound'}
FORBIDDEN = re.compile(r'\b(sorry|admit|native_decide|bv_decide|implemented_by)\b|^\s*axiom\s|\bunsafe\s|maxHeartbeats\s+0\b')


def _strip_comments(src):
    src = re.sub(r'/-.*?-/', '', src, flags=re.S)
    src = re.sub(r'--.*', '', src)
    return src


def grep_forbidden():
    hits = []
    for root, dirs, files in os.walk(os.path.join(LEAN, 'Cherab')):
        for f in files:
            if f.endswith('.lean'):
                p = os.path.join(root, f)
                for i, line in enumerate(_strip_comments(open(p).read()).splitlines(), 1):
                    if FORBIDDEN.search(line):
                        hits.append('%s:%d: %s' % (os.path.relpath(p, LEAN), i, line.strip()[:120]))
    return hits


def write_if_changed(path, text):
    """generated files are rewritten only when their content changes (keeps lake builds no-ops)"""
    if os.path.exists(path) and open(path).read() == text:
        return False
    os.makedirs(os.path.dirname(path), exist_ok=True)
    with open(path, 'w') as f:
        f.write(text)
    return True


def lake_build(targets, timeout=3000):
    """returns (ok, output)"""
    with open(LOCK, 'w') as lk:
        fcntl.flock(lk, fcntl.LOCK_EX)
        r = subprocess.run(['lake', 'build'] + list(targets), cwd=LEAN, stdout=subprocess.PIPE,
                           stderr=subprocess.STDOUT, text=True, timeout=timeout)
    return r.returncode == 0, r.stdout


def build_each(modules):
    """build modules one by one so that a failure is attributed; returns {module: (ok, output)}"""
    out = {}
    ok, text = lake_build(modules)
    if ok:
        return {m: (True, '') for m in modules}
    for m in modules:
        out[m] = lake_build([m])
    return out


_AX = re.compile(r"'([^']+)' depends on axioms: \[([^\]]*)\]", re.S)
_NOAX = re.compile(r"'([^']+)' does not depend on any axioms")


def audit(audit_file):
    """run `lake env lean <audit_file>`; returns (ok, {theorem: [axioms]}, raw)"""
    r = subprocess.run(['lake', 'env', 'lean', audit_file], cwd=LEAN, stdout=subprocess.PIPE,
                       stderr=subprocess.STDOUT, text=True, timeout=1800)
    res = {}
    for m in _AX.finditer(r.stdout):
        res[m.group(1)] = [a.strip() for a in m.group(2).replace('\n', ' ').split(',') if a.strip()]
    for m in _NOAX.finditer(r.stdout):
        res[m.group(1)] = []
    return r.returncode == 0, res, r.stdout


def audit_targets(audit_file):
    src = _strip_comments(open(os.path.join(LEAN, audit_file)).read())
    return re.findall(r'#print axioms\s+(\S+)', src)


def run_driver(prop, lines, timeout=600):
    """feed protocol lines to the native driver; one output line per input line"""
    name = 'drv_' + prop.lower()
    ok, out = lake_build([name])
    if not ok:
        raise RuntimeError('driver does not build:\n' + out[-3000:])
    data = '\n'.join(lines) + '\n'
    r = subprocess.run([os.path.join(BIN, name)], input=data, stdout=subprocess.PIPE, stderr=subprocess.PIPE,
                       text=True, timeout=timeout)
    if r.returncode != 0:
        raise RuntimeError('driver failed (%d): %s' % (r.returncode, r.stderr[-2000:]))
    out = r.stdout.split('\n')
    if out and out[-1] == '':
        out.pop()
    if len(out) != len(lines):
        raise RuntimeError('driver returned %d lines for %d inputs' % (len(out), len(lines)))
    return out
