import Cherab.Drv.Proto
import Cherab.Model.Adf
import Cherab.Model.AdfText
import Cherab.Model.AdfCx
open Cherab.Drv Cherab.Adf Cherab.Adf.Text

/-!
C08 driver.  One command per generated file: the tables arrive as opaque numeric tokens, the driver renders the file
with the model's writer (abstract lines → text), parses the *text* with the layer-1 views and the abstract lines with
the canonical views, and answers  `text # result-from-text # 1/0 (both parses agree)`.
Text lines are joined with `|`.
-/

def vec (xs : List String) : String := ",".intercalate xs
def mat (xs : List (List String)) : String := "/".intercalate (xs.map vec)
def joinLines (ls : List String) : String := "|".intercalate ls

def takeN (n : Nat) (ts : List String) : List String × List String := (ts.take n, ts.drop n)

def fnOf (xs : List String) : Nat → String := fun i => xs.getD i "?"
/-- flat list stored as `outer*inner` with the *second* index outer: f i j = flat[j*nI + i] -/
def fn2 (nI : Nat) (xs : List String) : Nat → Nat → String := fun i j => xs.getD (j * nI + i) "?"

def show2x : Except Err (Out2x String) → String
  | .error e => "err " ++ e.toString
  | .ok o => "ok e:" ++ vec o.e ++ ";n:" ++ vec o.n ++ ";t:" ++ vec o.t ++ ";sen:" ++ mat o.sen ++ ";st:" ++ vec o.st
      ++ ";eref:" ++ o.eref ++ ";nref:" ++ o.nref ++ ";tref:" ++ o.tref ++ ";sref:" ++ o.sref

def cmd2x (ts : List String) : String :=
  match ts with
  | zt :: spec :: svref :: tref :: eref :: dref :: neb :: ndt :: ntt :: rest =>
    let neb := pN neb; let ndt := pN ndt; let ntt := pN ntt
    let (eb, rest) := takeN neb rest
    let (dt, rest) := takeN ndt rest
    let (tt, rest) := takeN ntt rest
    let (svt, rest) := takeN ntt rest
    let t : Tab2x String := { zt := pN zt, spec := spec, svref := svref, tref := tref, eref := eref, dref := dref,
                              eb := eb, dt := dt, tt := tt, svt := fnOf svt, sv := fn2 neb rest }
    let ks := render2x t
    let text := ks.map text2x
    let a := parse2x lexK2x ks
    let b := parse2x lex2x text
    joinLines text ++ "#" ++ show2x b ++ "#" ++ fB (show2x a == show2x b)
  | _ => "bad-args"

/-! ### ADF12:  `adf12 pad nblocks {up lo qefref r0..r4 nbeam nti ndi nze nb ener.. qener.. tiev.. qtiev.. densi.. qdensi.. zeff.. qzeff.. bmag.. qbmag..}`
with an optional leading `count=<n>` override of the first line (absent-block stream) -/

def show12one (tr : Nat × Nat) (r : Rate12 String) : String :=
  toString tr.1 ++ "-" ++ toString tr.2 ++ ";eb:" ++ vec r.eb ++ ";ti:" ++ vec r.ti ++ ";ni:" ++ vec r.ni ++ ";z:" ++ vec r.z
    ++ ";b:" ++ vec r.b ++ ";qeb:" ++ vec r.qeb ++ ";qti:" ++ vec r.qti ++ ";qni:" ++ vec r.qni ++ ";qz:" ++ vec r.qz
    ++ ";qb:" ++ vec r.qb ++ ";ebref:" ++ r.ebref ++ ";tiref:" ++ r.tiref ++ ";niref:" ++ r.niref ++ ";zref:" ++ r.zref
    ++ ";bref:" ++ r.bref ++ ";qref:" ++ r.qref

def show12 : Except Err (List ((Nat × Nat) × Rate12 String)) → String
  | .error e => "err " ++ e.toString
  | .ok l => "ok " ++ "!".intercalate (l.map fun kv => show12one kv.1 kv.2)

def readBlk12 (ts : List String) : Blk12 String × List String :=
  match ts with
  | up :: lo :: q :: r0 :: r1 :: r2 :: r3 :: r4 :: nbeam :: nti :: ndi :: nze :: nb :: rest =>
    let (ener, rest) := takeN (pN nbeam) rest
    let (qener, rest) := takeN (pN nbeam) rest
    let (tiev, rest) := takeN (pN nti) rest
    let (qtiev, rest) := takeN (pN nti) rest
    let (densi, rest) := takeN (pN ndi) rest
    let (qdensi, rest) := takeN (pN ndi) rest
    let (zeff, rest) := takeN (pN nze) rest
    let (qzeff, rest) := takeN (pN nze) rest
    let (bmag, rest) := takeN (pN nb) rest
    let (qbmag, rest) := takeN (pN nb) rest
    ({ up := pN up, lo := pN lo, qefref := q, refs := [r0, r1, r2, r3, r4], ener := ener, qener := fnOf qener,
       tiev := tiev, qtiev := fnOf qtiev, densi := densi, qdensi := fnOf qdensi, zeff := zeff, qzeff := fnOf qzeff,
       bmag := bmag, qbmag := fnOf qbmag }, rest)
  | _ => ({ up := 0, lo := 0, qefref := "?", refs := [], ener := [], qener := fnOf [], tiev := [], qtiev := fnOf [],
            densi := [], qdensi := fnOf [], zeff := [], qzeff := fnOf [], bmag := [], qbmag := fnOf [] }, [])

def readBlks12 : Nat → List String → List (Blk12 String)
  | 0, _ => []
  | n + 1, ts => let (b, r) := readBlk12 ts; b :: readBlks12 n r

def cmd12 (ts : List String) : String :=
  match ts with
  | count :: pad :: nb :: rest =>
    let bs := readBlks12 (pN nb) rest
    let ks0 := render12 pad bs
    -- the absent-block stream announces more blocks than the file holds
    let ks := if count == "-" then ks0 else (K12.count (pN count)) :: ks0.tail
    let text := ks.map text12
    let a := parse12 lexK12 ks
    let b := parse12 lex12 text
    joinLines text ++ "#" ++ show12 b ++ "#" ++ fB ((show12 a).replace "D" "E" == show12 b)
  | _ => "bad-args"

/-! ### ADF11:  `adf11 cls elemZ elemName z name zmin zmax nNe nTe altEnd nmeta meta.. nblocks z1.. ne.. te.. rates(block, i_te, i_ne)..`
`nmeta = 0`: unresolved file -/

def cls11 (s : String) : Class11 :=
  match s with
  | "scd" => .scd | "acd" => .acd | "ccd" => .ccd | "plt" => .plt | "prb" => .prb | "prc" => .prc | _ => .pls

def show11blk (k : String) (ne te : List String) (rates : List (List String)) : String :=
  k ++ ";ne:" ++ vec ne ++ ";te:" ++ vec te ++ ";rates:" ++ mat rates

def show11 : Except Err (List (Nat × Block11 String)) → String
  | .error e => "err " ++ e.toString
  | .ok l => "ok " ++ "!".intercalate (l.map fun kv => show11blk (toString kv.1) kv.2.ne kv.2.te kv.2.rates)

def show11inst (c : Class11) : Except Err (List (Nat × Block11 String)) → String
  | .error e => "err " ++ e.toString
  | .ok l => "ok " ++ "!".intercalate ((notation11 c l).map fun kv => show11blk (toString kv.1) kv.2.ne kv.2.te kv.2.rates)

def readBlks11 (nNe nTe : Nat) : List String → List String → List (Blk11 String)
  | [], _ => []
  | z :: zs, ts =>
    let (r, rest) := takeN (nNe * nTe) ts
    { z1 := pN z, rate := fn2 nNe r } :: readBlks11 nNe nTe zs rest

def cmd11 (ts : List String) : String :=
  match ts with
  | cls :: elemZ :: elemName :: z :: name :: zmin :: zmax :: nNe :: nTe :: altEnd :: nmeta :: rest =>
    let nNe := pN nNe; let nTe := pN nTe
    let (metaL, rest) := takeN (pN nmeta) rest
    match rest with
    | nb :: rest =>
      let (zs, rest) := takeN (pN nb) rest
      let (ne, rest) := takeN nNe rest
      let (te, rest) := takeN nTe rest
      let res : Option (List String) := if pN nmeta == 0 then none else some metaL
      let blks := readBlks11 nNe nTe zs rest
      let t : Tab11 String String := ⟨pN z, name, pN zmin, pN zmax, ne, te, res, blks, pB altEnd⟩
      let ks := render11 t
      let text := ks.map text11
      let neg : String → Bool := fun s => s.startsWith "-"
      let a := parse11 (lexK11 neg) (pN elemZ) elemName ks
      let b := parse11 lex11 (pN elemZ) elemName text
      joinLines text ++ "#" ++ show11 b ++ "#" ++ fB (show11 a == show11 b) ++ "#" ++ show11inst (cls11 cls) b
    | _ => "bad-args"
  | _ => "bad-args"

/-! ### ADF15:  `adf15 hf isH oneE bnd dialect nblocks {isel wl typ nN nT ne.. te.. rate(i_ne, i_te)..} ncfg {id conf spin l j} nidx {isel wl up lo typ}`
blanks inside a configuration are sent as `_` -/

def fnRow (nT : Nat) (xs : List String) : Nat → Nat → String := fun i j => xs.getD (i * nT + j) "?"

def typOf (s : String) : RateType := match s with | "EXCIT" => .excit | "RECOM" => .recom | _ => .chexc

def unders (s : String) : String := s.replace "_" " "
def spaces (s : String) : String := s.replace " " "_"

def readBlks15 : Nat → List String → List (Blk15 String String) × List String
  | 0, ts => ([], ts)
  | n + 1, ts =>
    match ts with
    | isel :: wl :: typ :: nN :: nT :: rest =>
      let (ne, rest) := takeN (pN nN) rest
      let (te, rest) := takeN (pN nT) rest
      let (rs, rest) := takeN (pN nN * pN nT) rest
      let (bs, rest) := readBlks15 n rest
      ({ isel := pN isel, wl := wl, typ := typOf typ, ne := ne, te := te, rate := fnRow (pN nT) rs } :: bs, rest)
    | _ => ([], [])

def readCfgs15 : Nat → List String → List (Cfg15 String) × List String
  | 0, ts => ([], ts)
  | n + 1, ts =>
    match ts with
    | id :: conf :: spin :: l :: j :: rest =>
      let (cs, rest) := readCfgs15 n rest
      ({ id := pN id, conf := unders conf, spin := spin, l := pN l, j := j } :: cs, rest)
    | _ => ([], [])

def readIdx15 : Nat → List String → List (Idx15 String)
  | 0, _ => []
  | n + 1, ts =>
    match ts with
    | isel :: wl :: up :: lo :: typ :: rest =>
      { isel := pN isel, wl := wl, up := pN up, lo := pN lo, typ := typOf typ } :: readIdx15 n rest
    | _ => []

def showLevel : Level String → String
  | .n k => "n" ++ toString k
  | .cfg conf spin l j => "c~" ++ spaces conf ++ "~" ++ spin ++ "~" ++ toString l ++ "~" ++ j

def show15rates (cls : String) (l : List (Trans String × Rate15 String)) : List String :=
  l.map fun kv => cls ++ ";" ++ showLevel kv.1.1 ++ ";" ++ showLevel kv.1.2 ++ ";ne:" ++ vec kv.2.ne ++ ";te:" ++ vec kv.2.te
    ++ ";rate:" ++ mat kv.2.rate

def show15 : Except Err (Out15 String String String) → String
  | .error e => "err " ++ e.toString
  | .ok o => "ok " ++ "!".intercalate (show15rates "excitation" o.excitation ++ show15rates "recombination" o.recombination
      ++ show15rates "thermalcx" o.thermalcx
      ++ o.wavelength.map fun kv => "wavelength;" ++ showLevel kv.1.1 ++ ";" ++ showLevel kv.1.2 ++ ";wl:" ++ kv.2)

def cmd15 (ts : List String) : String :=
  match ts with
  | hf :: isH :: oneE :: bnd :: dialect :: nb :: rest =>
    let (blocks, rest) := readBlks15 (pN nb) rest
    match rest with
    | ncfg :: rest =>
      let (cfgs, rest) := readCfgs15 (pN ncfg) rest
      match rest with
      | nidx :: rest =>
        let idx := readIdx15 (pN nidx) rest
        let d : Dialect := match dialect with | "h" => .hydrogen | "hl" => .hydrogenLike | "f1" => .full true | _ => .full false
        let t : Tab15 String String String := ⟨blocks, cfgs, idx, d⟩
        let sel : Sel15 := ⟨(match hf with | "h" => some .hydrogen | "hl" => some .hydrogenLike | _ => none), pB isH, pB oneE, pB bnd⟩
        let ks := render15 t
        let text := ks.map text15
        let a := parse15 lexK15 sel ks
        let b := parse15 lex15 sel text
        joinLines text ++ "#" ++ show15 b ++ "#" ++ fB (show15 a == show15 b)
      | _ => "bad-args"
    | _ => "bad-args"
  | _ => "bad-args"

def showConvs (name : String) (l : List (String × Conv)) : String :=
  name ++ " " ++ " ".intercalate (l.map fun kv => kv.1 ++ "=" ++ kv.2.code)

/-- the conversion tags of the model, for comparison with the harness' own tables and with the behaviour of the code -/
def cmdTags : String :=
  "|".intercalate [showConvs "adf21" (convs2x .adf21), showConvs "bmp" (convs2x .bmp), showConvs "bme" (convs2x .bme),
    showConvs "adf12" convs12, showConvs "adf11parsed" convs11parsed, showConvs "adf11installed" convs11installed,
    showConvs "adf15" convs15,
    "charge " ++ " ".intercalate ([Class11.scd, .acd, .ccd, .plt, .prb, .prc].map fun c => c.code ++ "=" ++ toString c.chargeCorrection)]

/-! ### thermal-CX 2D→3D converter:  `cx3d nEl {el nCh {charge nTr {tr nNe nTe rows cols ne.. te.. rate(row-major rows*cols)..}}}`
answers `ok el;charge;tr;ne:..;te:..;td:..;rate:<cell>/<cell>..` per entry (cells of one density row joined by `/`, rows by `|`) or `err <kind>` -/

def readCxTrs : Nat → List String → List (String × Rate15 String) × List String
  | 0, ts => ([], ts)
  | n + 1, ts =>
    match ts with
    | tr :: nNe :: nTe :: rows :: cols :: rest =>
      let (ne, rest) := takeN (pN nNe) rest
      let (te, rest) := takeN (pN nTe) rest
      let (fl, rest) := takeN (pN rows * pN cols) rest
      let rate := (List.range (pN rows)).map fun i => (List.range (pN cols)).map fun j => fl.getD (i * pN cols + j) "?"
      let (more, rest) := readCxTrs n rest
      ((tr, { ne := ne, te := te, rate := rate }) :: more, rest)
    | _ => ([], [])

def readCxChs : Nat → List String → List (Int × List (String × Rate15 String)) × List String
  | 0, ts => ([], ts)
  | n + 1, ts =>
    match ts with
    | q :: nTr :: rest =>
      let (trs, rest) := readCxTrs (pN nTr) rest
      let (more, rest) := readCxChs n rest
      ((pI q, trs) :: more, rest)
    | _ => ([], [])

def readCxEls : Nat → List String → List (String × List (Int × List (String × Rate15 String)))
  | 0, _ => []
  | n + 1, ts =>
    match ts with
    | el :: nCh :: rest =>
      let (chs, rest) := readCxChs (pN nCh) rest
      (el, chs) :: readCxEls n rest
    | _ => []

def showCx (l : List (String × List (Int × List (String × Rate15x3 String)))) : String :=
  "!".intercalate (l.flatMap fun ec => ec.2.flatMap fun qt => qt.2.map fun tr =>
    ec.1 ++ ";" ++ toString qt.1 ++ ";" ++ tr.1 ++ ";ne:" ++ vec tr.2.ne ++ ";te:" ++ vec tr.2.te ++ ";td:" ++ vec tr.2.td
      ++ ";rate:" ++ "|".intercalate (tr.2.rate.map fun row => "/".intercalate (row.map vec)))

def cmdCx (ts : List String) : String :=
  match ts with
  | nEl :: rest =>
    match cx2dto3d (readCxEls (pN nEl) rest) with
    | .error e => "err " ++ e.toString
    | .ok o => "ok " ++ cxDonor.1 ++ " " ++ toString cxDonor.2 ++ " " ++ showCx o
  | _ => "bad-args"

def step (ts : List String) : String :=
  match ts with
  | ["tags"] => cmdTags
  | ["locate", d, a, ia, ic] => match locateAdasFile (pB d) (pB a) (pB ia) (pB ic) with | some p => p.code | none => "none"
  | "dispatch" :: keys => " ".intercalate (keys.map fun k => k ++ "=" ++ ",".intercalate (installFilesTargets k))
  | "adf2x" :: r => cmd2x r
  | "adf15" :: r => cmd15 r
  | "adf12" :: r => cmd12 r
  | "adf11" :: r => cmd11 r
  | "cx3d" :: r => cmdCx r
  | _ => "bad-op"

def main : IO UInt32 := do
  loop (stateless step) (← IO.getStdin) (← IO.getStdout) ()
  return 0
