import Cherab.Props.C17
open Cherab.Props.C17
-- independence of start vertex / orientation
#print axioms shoelace_rotate
#print axioms shoelace_reverse
#print axioms area_rotate
#print axioms area_reverse
#print axioms centroid_rotate
#print axioms centroid_reverse
#print axioms volume_rotate
#print axioms volume_reverse
#print axioms winding_eq_neg_shoelace
#print axioms normalise_invariant
#print axioms normalise_clockwise
#print axioms normalise_reverse
-- any radius and height
#print axioms shoelace_translate
#print axioms area_translate
#print axioms centroid_translate
-- true area / centroid
#print axioms shoelace_fan
#print axioms centroid_fan
#print axioms centroid_is_weighted_mean
#print axioms shoelace_split
#print axioms moments_split
#print axioms triangulation_area
#print axioms triangulation_moments
#print axioms triangulation_unsigned
#print axioms triArea_eq
#print axioms triangle_exact
#print axioms rect_exact
-- volume
#print axioms volume_pappus
#print axioms volume_frustum
#print axioms total_volume_sum
#print axioms total_volume_append
#print axioms total_volume_perm
#print axioms total_volume_grid
-- sampling
#print axioms cumulativeAreas_getD
#print axioms cumulativeAreas_sorted
#print axioms bisect_spec
#print axioms findIndex_spec
#print axioms findIndex_ge
#print axioms lookup_eq_iff
#print axioms pick_triangle_measure
#print axioms pick_probability
#print axioms pick_in_range
#print axioms lookup_leaves_table
#print axioms lookup_out_of_range_witness
#print axioms lookup_clamped_in_range
#print axioms pickTriangle_in_range
#print axioms pickTriangle_in_range_if_clamped
#print axioms table_ends_at_total
#print axioms emissivity_index_in_range
#print axioms sample_point_convex
#print axioms estimate_const
#print axioms estimate_linear
#print axioms emissivity_is_sample_mean
#print axioms unbiased_partial
-- grid state histories
#print axioms grid_total_history
#print axioms grid_trace_const
#print axioms grid_ctor_total
-- proof-deepening pass
#print axioms centroid_r_nonneg
#print axioms volume_nonneg
#print axioms pick_positive_area
#print axioms every_positive_triangle_reachable
#print axioms sample_point_onto
#print axioms drawOne_total
#print axioms drawN_never_leaves_table
#print axioms grid_rejected_op_unchanged
#print axioms grid_active_exactly_one
-- round 6: constructor validation ladder on raw rows; constructor outcome independent of the listing; collection-level sampling
#print axioms mkVoxelRows_agrees
#print axioms rowLadder_first_offender
#print axioms rowLadder_ok_iff
#print axioms mkVoxel_ok_iff
#print axioms mkVoxelRows_ok_iff
#print axioms mkVoxel_stored
#print axioms ctor_geom_rotate
#print axioms ctor_geom_reverse
#print axioms emissivities_length
#print axioms emissivities_entry
#print axioms emissivities_const
#print axioms emissivities_zero_samples
