import Cherab.Gen.InstrumentEdges
import Cherab.Props.C16

/-!
# C16 — reference flow on the tables generated from the current source

The property quantifies over *setter sequences*.  That is the whole story only if an instrument cannot be changed behind
the setters' back, through an array or list the caller handed over earlier and still owns.  The translator marks every
attribute that may hold (or contain) such a caller-owned container (`aliased`); `no_alias_*` demands that these are only
the documented ones (`knownAliased`).
-/
namespace Cherab.Props.C16
open Cherab.Instruments Cherab.Gen.InstrumentEdges

/-- `no_alias_*`: the only attributes that keep a reference to a container owned by the caller are the documented ones
(`Polychromator._filters`, `CzernyTurnerSpectrometer._accommodated_spectra`); in particular the pixel-edge arrays of a
`Spectrometer` are copies -/
theorem no_alias_spectrometer : aliasFreeB spectrometer = true ∧ spectrometer.aliased = [] := by decide +kernel
theorem no_alias_ct : aliasFreeB czernyTurnerSpectrometer = true := by decide +kernel
theorem no_alias_polychromator : aliasFreeB polychromator = true := by decide +kernel
theorem no_alias_all : ∀ t ∈ allTables, aliasFreeB t = true := by decide +kernel

end Cherab.Props.C16
