namespace Cherab.Gen.AdfLex
def probeAcceptsMinus : Bool := false
end Cherab.Gen.AdfLex
