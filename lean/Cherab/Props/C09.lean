import Cherab.Model.IonBalance
import Cherab.Gen.IonBalance
import Cherab.Lemmas.IonBalance
import Mathlib.Tactic.Ring
import Mathlib.Tactic.Linarith
import Mathlib.Tactic.FieldSimp
import Mathlib.Tactic.Positivity
import Mathlib.Tactic.NormNum
import Mathlib.Algebra.Order.Field.Basic
import Mathlib.Algebra.Order.Ring.Rat

/-!
# C09 — ionisation balance solves the steady-state equations, conserves particles / charge

Property theorems only.  All statements are for every atomic number `Z ≥ 1`, every positive rate table, every
`n_e > 0`, `n_D ≥ 0`, over an arbitrary ordered field.  `lsq_linear` is a parameter of the model; `SolverSpec` is its
contract ("returns a zero-residual point inside the bounds whenever one exists").
-/
namespace Cherab.Props.C09
set_option linter.unusedSectionVars false
open Cherab.IonBalance Cherab.Lemmas.IonBalance

variable {α : Type} [Field α] [LinearOrder α] [IsStrictOrderedRing α]

/-- "arbitrary positive rate tables, n_e > 0, donor densities ≥ 0" -/
structure PosRates (Z : ℕ) (S A : ℕ → α) (tcx : Option (ℕ → α)) (ne nD : α) : Prop where
  ne_pos : 0 < ne
  nD_nonneg : 0 ≤ nD
  ion_pos : ∀ z, z < Z → 0 < S z
  rec_pos : ∀ z, 1 ≤ z → z ≤ Z → 0 < A z
  cx_nonneg : ∀ c, tcx = some c → ∀ z, 1 ≤ z → z ≤ Z → 0 ≤ c z

/-- contract of the bounded least-squares solver: if the system has an exact solution inside the bounds, the
minimiser returned has zero residual and respects the bounds -/
def SolverSpec (solve : Solver α) : Prop :=
  ∀ (M : ℕ → ℕ → α) (b : ℕ → α) (rows cols : ℕ) (lo hi : α),
    (∃ x : ℕ → α, (∀ j, j < cols → lo ≤ x j ∧ x j ≤ hi) ∧ ∀ i, i < rows → rowDot cols M x i = b i) →
    (∀ j, j < cols → lo ≤ solve M b rows cols lo hi j ∧ solve M b rows cols lo hi j ≤ hi) ∧
      ∀ i, i < rows → rowDot cols M (solve M b rows cols lo hi) i = b i

/-- the thermal-CX table the *property* asks for: the donor's rates iff a donor is given -/
def specTcx (donor : Bool) (C : ℕ → α) : Option (ℕ → α) := if donor then some C else none

section closed
variable {Z : ℕ} {S A : ℕ → α} {tcx : Option (ℕ → α)} {ne nD : α}

theorem cxTerm_nonneg (h : PosRates Z S A tcx ne nD) (z : ℕ) (h1 : 1 ≤ z) (h2 : z ≤ Z) :
    0 ≤ cxTerm tcx ne nD z := by
  unfold cxTerm
  cases htcx : tcx with
  | none => simp
  | some c =>
    simp only
    exact mul_nonneg (div_nonneg h.nD_nonneg h.ne_pos.le) (h.cx_nonneg c htcx z h1 h2)

theorem recTot_pos (h : PosRates Z S A tcx ne nD) (z : ℕ) (h1 : 1 ≤ z) (h2 : z ≤ Z) :
    0 < recTot A tcx ne nD z := by
  unfold recTot
  have := cxTerm_nonneg h z h1 h2
  have := h.rec_pos z h1 h2
  linarith

theorem unnorm_pos (h : PosRates Z S A tcx ne nD) (z : ℕ) (hz : z ≤ Z) : 0 < unnorm S A tcx ne nD z := by
  induction z with
  | zero => simp [unnorm]
  | succ z ih =>
    simp only [unnorm]
    exact mul_pos (ih (by omega)) (div_pos (h.ion_pos z (by omega)) (recTot_pos h (z + 1) (by omega) hz))

theorem total_pos (h : PosRates Z S A tcx ne nD) : 0 < sumTo (unnorm S A tcx ne nD) (Z + 1) := by
  have h0 := le_sumTo (unnorm S A tcx ne nD) (Z + 1) 0 (by omega) (fun j hj => (unnorm_pos h j (by omega)).le)
  have : unnorm S A tcx ne nD 0 = 1 := rfl
  linarith

theorem closedFrac_pos (h : PosRates Z S A tcx ne nD) (z : ℕ) (hz : z ≤ Z) : 0 < closedFrac Z S A tcx ne nD z :=
  div_pos (unnorm_pos h z hz) (total_pos h)

theorem closedFrac_le_one (h : PosRates Z S A tcx ne nD) (z : ℕ) (hz : z ≤ Z) : closedFrac Z S A tcx ne nD z ≤ 1 := by
  unfold closedFrac
  rw [div_le_one (total_pos h)]
  exact le_sumTo _ (Z + 1) z (by omega) (fun j hj => (unnorm_pos h j (by omega)).le)

theorem closedFrac_sum (h : PosRates Z S A tcx ne nD) : sumTo (closedFrac Z S A tcx ne nD) (Z + 1) = 1 := by
  unfold closedFrac
  rw [sumTo_div]
  exact div_self (total_pos h).ne'

/-- detailed balance of the closed form -/
theorem closedFrac_balance (h : PosRates Z S A tcx ne nD) (z : ℕ) (hz : z < Z) :
    closedFrac Z S A tcx ne nD z * S z = closedFrac Z S A tcx ne nD (z + 1) * recTot A tcx ne nD (z + 1) := by
  unfold closedFrac
  simp only [unnorm]
  have hR := (recTot_pos h (z + 1) (by omega) hz).ne'
  have hT := (total_pos h).ne'
  field_simp

/-- **closed_form_solves**: the closed form is an exact solution of the `(Z+2) × (Z+1)` system built by the code -/
theorem closed_form_solves (hZ : 1 ≤ Z) (h : PosRates Z S A tcx ne nD) (i : ℕ) (hi : i < Z + 2) :
    rowDot (Z + 1) (matEntry Z S A tcx ne nD) (closedAbundance Z S A tcx ne nD) i = rhsEntry Z ne i := by
  obtain ⟨m, rfl⟩ : ∃ m, Z = m + 1 := ⟨Z - 1, by omega⟩
  have bal : ∀ z, z < m + 1 → S z * closedAbundance (m + 1) S A tcx ne nD z
      = recTot A tcx ne nD (z + 1) * closedAbundance (m + 1) S A tcx ne nD (z + 1) := by
    intro z hz
    have := closedFrac_balance h z hz
    unfold closedAbundance
    linear_combination ne * this
  by_cases h0 : i = 0
  · subst h0
    rw [rowDot_first, bal 0 (by omega)]
    simp [rhsEntry]
  by_cases hl : i = m + 1
  · subst hl
    rw [rowDot_last, bal m (by omega)]
    simp [rhsEntry]
  by_cases hn : i = m + 1 + 1
  · subst hn
    rw [rowDot_norm]
    unfold closedAbundance
    rw [sumTo_mul_left, closedFrac_sum h]
    simp [rhsEntry]
  · obtain ⟨k, rfl⟩ : ∃ k, i = k + 1 := ⟨i - 1, by omega⟩
    have hk : k + 1 < m + 1 := by omega
    rw [rowDot_interior (m + 1) k hk, bal k (by omega)]
    have := bal (k + 1) hk
    have e : rhsEntry (m + 1) ne (k + 1) = 0 := by simp [rhsEntry]; omega
    rw [e]
    linear_combination (-ne) * this

/-- **solution_unique**: with positive rates the system has no other solution (so a zero-residual least-squares
minimiser is the closed form) -/
theorem solution_unique (hZ : 1 ≤ Z) (h : PosRates Z S A tcx ne nD) (x : ℕ → α)
    (hx : ∀ i, i < Z + 2 → rowDot (Z + 1) (matEntry Z S A tcx ne nD) x i = rhsEntry Z ne i)
    (z : ℕ) (hz : z ≤ Z) : x z = closedAbundance Z S A tcx ne nD z := by
  obtain ⟨m, rfl⟩ : ∃ m, Z = m + 1 := ⟨Z - 1, by omega⟩
  have hne := h.ne_pos.ne'
  -- all fluxes vanish
  have flux : ∀ k, k < m + 1 → S k * x k = recTot A tcx ne nD (k + 1) * x (k + 1) := by
    intro k
    induction k with
    | zero =>
      intro _
      have := hx 0 (by omega)
      rw [rowDot_first] at this
      have e : rhsEntry (m + 1) ne 0 = 0 := by simp [rhsEntry]
      rw [e] at this
      have := (mul_eq_zero.mp this).resolve_left hne
      linarith
    | succ k ih =>
      intro hk
      have h1 := ih (by omega)
      have := hx (k + 1) (by omega)
      rw [rowDot_interior (m + 1) k hk] at this
      have e : rhsEntry (m + 1) ne (k + 1) = 0 := by simp [rhsEntry]; omega
      rw [e] at this
      have := (mul_eq_zero.mp this).resolve_left hne
      linarith
  -- hence x is a multiple of the un-normalised closed form
  have mult : ∀ k, k ≤ m + 1 → x k = x 0 * unnorm S A tcx ne nD k := by
    intro k
    induction k with
    | zero => intro _; simp [unnorm]
    | succ k ih =>
      intro hk
      have hR := (recTot_pos h (k + 1) (by omega) hk).ne'
      have f := flux k (by omega)
      simp only [unnorm]
      rw [ih (by omega)] at f
      field_simp
      linear_combination -f
  -- normalisation row fixes the multiple
  have nrm := hx (m + 1 + 1) (by omega)
  rw [rowDot_norm] at nrm
  have e : rhsEntry (m + 1) ne (m + 1 + 1) = ne := by simp [rhsEntry]
  rw [e, sumTo_congr x (fun j => x 0 * unnorm S A tcx ne nD j) (m + 1 + 1) (fun j hj => mult j (by omega)),
    sumTo_mul_left] at nrm
  have hT := (total_pos h).ne'
  rw [mult z hz]
  unfold closedAbundance closedFrac
  rw [← nrm]
  field_simp

/-- **lsq_returns_closed_form**: any solver meeting `SolverSpec` makes `_fractional_abundance_point` return the
closed form -/
theorem lsq_returns_closed_form (solve : Solver α) (hs : SolverSpec solve) (hZ : 1 ≤ Z)
    (h : PosRates Z S A tcx ne nD) (z : ℕ) (hz : z ≤ Z) :
    fracPoint solve Z S A tcx ne nD z = closedFrac Z S A tcx ne nD z := by
  have hne := h.ne_pos.ne'
  obtain ⟨_, hsol⟩ := hs (matEntry Z S A tcx ne nD) (rhsEntry Z ne) (Z + 2) (Z + 1) 0 ne
    ⟨closedAbundance Z S A tcx ne nD, fun j hj => by
        unfold closedAbundance
        have p := (closedFrac_pos h j (by omega)).le
        have q := closedFrac_le_one h j (by omega)
        exact ⟨mul_nonneg h.ne_pos.le p, by nlinarith [h.ne_pos]⟩,
      fun i hi => closed_form_solves hZ h i hi⟩
  unfold fracPoint
  rw [solution_unique hZ h _ hsol z hz]
  unfold closedAbundance
  field_simp

end closed

end Cherab.Props.C09
