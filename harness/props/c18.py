"""C18 — laser profiles integrate to the pulse energy and track their parameters.

T  lean/Cherab/Props/C18.lean (+ C18Real, C18Table*) over lean/Cherab/Model/Laser.lean and the class tables that
   harness/translators/laser_edges.py regenerates from /repo's .pyx on every run (Gen/LaserEdges.lean).
K  (a) the table-driven interpreter of the model (native driver, Float) is run against the real classes on
       constructor + setter histories: accepted/rejected, energy density at points, generated segments, every getter,
       wavelengths / power_spectral_density / spectrum(x);
   (b) generate_segmented_cylinder and the binned spectra as pure functions; (c) the driver's erf against libm.
S  direct oracles on the implementation, no model: object after a history == object freshly constructed from the
   parameters it reports (energy density, polarisation, geometry, binned spectrum, getters); get_* accessors ==
   properties; rejected assignments leave the object unchanged; tensor Gauss-Legendre cross-section / volume integrals
   == E_p/(c tau) / E_p; segments tile [0, L]; bin power == quadrature of spectrum(x) over the bin; sum of bin powers.
"""
import json
import math
import os
import re

import numpy as np

from harness.vlib.util import f2b, b2f, close, call, VERIF

C_LIGHT = 299792458.0

PARAMS = {
    'UniformEnergyDensity': ['energy_density', 'laser_length', 'laser_radius'],
    'ConstantBivariateGaussian': ['pulse_energy', 'pulse_length', 'laser_radius', 'laser_length', 'stddev_x', 'stddev_y'],
    'TrivariateGaussian': ['pulse_energy', 'pulse_length', 'mean_z', 'laser_length', 'laser_radius', 'stddev_x', 'stddev_y'],
    'GaussianBeamAxisymmetric': ['pulse_energy', 'pulse_length', 'laser_length', 'laser_radius', 'waist_z', 'stddev_waist',
                                 'laser_wavelength'],
    'ConstantSpectrum': ['min_wavelength', 'max_wavelength', 'bins'],
    'GaussianSpectrum': ['min_wavelength', 'max_wavelength', 'bins', 'mean', 'stddev'],
}
PROFILES = ['UniformEnergyDensity', 'ConstantBivariateGaussian', 'TrivariateGaussian', 'GaussianBeamAxisymmetric']
SPECTRA = ['ConstantSpectrum', 'GaussianSpectrum']
METHOD_GETTERS = {'get_min_wavelenth': 'min_wavelength', 'get_max_wavelenth': 'max_wavelength',
                  'get_spectral_bins': 'bins', 'get_delta_wavelength': 'delta_wavelength'}
UNSIGNED = {'mean_z', 'waist_z'}          # parameters that may take any sign


def classes():
    import cherab.core.model.laser as m
    return {n: getattr(m, n) for n in PROFILES + SPECTRA}


# --------------------------------------------------------------------------------------------- generators
def gen_value(rng, cls, p, valid=True):
    if not valid:
        return rng.choice([0.0, -1.0, -rng.uniform(1e-3, 5.0)])
    if p == 'bins':
        return float(rng.choice([1, 1, 2, 3, 4, 5, 7, 10, 16, 33]))
    if p in ('pulse_energy', 'energy_density'):
        return rng.choice([1.0, 2.0, 0.5, rng.uniform(1e-3, 10.0)])
    if p == 'pulse_length':
        if cls == 'TrivariateGaussian':        # sigma_z = tau c : 3 mm … 30 m
            return rng.choice([1e-9, rng.uniform(1e-11, 1e-7)])
        return rng.choice([1e-8, 1.0, rng.uniform(1e-10, 1e-6)])
    if p in ('stddev_x', 'stddev_y'):
        return rng.choice([0.01, 0.02, rng.uniform(1e-3, 0.1)])
    if p == 'stddev_waist':
        return rng.choice([0.005, 1e-3, rng.uniform(1e-4, 2e-2)])
    if p == 'laser_wavelength':
        return rng.choice([1060.0, 1064.0, 532.0, rng.uniform(300.0, 2000.0)])
    if p == 'laser_radius':
        return rng.choice([0.05, 0.5, 0.25, 0.03, rng.uniform(5e-3, 0.6)])
    if p == 'laser_length':
        return rng.choice([1.0, 2.0, 0.5, 10.0, 0.04, rng.uniform(0.01, 6.0)])
    if p in ('mean_z', 'waist_z'):
        return rng.choice([0.0, 0.5, -0.25, rng.uniform(-1.0, 3.0)])
    if p == 'mean':
        return rng.choice([1060.0, rng.uniform(1055.0, 1065.0)])
    if p == 'stddev':
        return rng.choice([0.3, 0.5, 0.05, rng.uniform(0.02, 3.0)])
    raise KeyError(p)


def gen_args(rng, cls):
    a = {p: gen_value(rng, cls, p) for p in PARAMS[cls] if p not in ('min_wavelength', 'max_wavelength')}
    if cls in SPECTRA:
        lo = rng.choice([1059.0, 1035.0, rng.uniform(200.0, 2000.0)])
        hi = lo + rng.choice([2.0, 10.0, 0.2, rng.uniform(0.01, 40.0)])
        a['min_wavelength'], a['max_wavelength'] = lo, hi
        if cls == 'GaussianSpectrum':
            a['mean'] = rng.choice([0.5 * (lo + hi), rng.uniform(lo - 1.0, hi + 1.0)])
            a['stddev'] = rng.choice([0.3, (hi - lo) / 8.0, rng.uniform(0.02, 3.0)])
    return a


SPECIALS = {}        # filled by run() from the translator's table: {cls: {param: [default, pre-seeded literal]}}


def gen_op(rng, cls, p, obj_state=None):
    """(prop, value); ~12 % deliberately invalid; ~12 % the value the property already has ("set to the same value
    again"); ~12 % a constructor default / pre-seeded literal; range setters stay mostly consistent with the other bound"""
    if p != 'polarization':
        u = rng.random()
        if u < 0.12 and obj_state is not None and p in obj_state:
            return p, obj_state[p]
        if u < 0.24 and SPECIALS.get(cls, {}).get(p):
            return p, rng.choice(SPECIALS[cls][p])
    if p == 'polarization':
        v = [rng.uniform(-1, 1), rng.uniform(-1, 1), rng.uniform(-1, 1)]
        if rng.random() < 0.1:
            v = [0.0, 0.0, 0.0]
        return p, v
    if rng.random() < 0.12 and p not in UNSIGNED:
        return p, gen_value(rng, cls, p, valid=False)
    if p == 'min_wavelength' and obj_state is not None:
        hi = obj_state['max_wavelength']
        return p, rng.choice([hi - rng.uniform(0.01, 20.0), hi + 1.0, hi])
    if p == 'max_wavelength' and obj_state is not None:
        lo = obj_state['min_wavelength']
        return p, rng.choice([lo + rng.uniform(0.01, 20.0), lo - 1.0, lo])
    return p, gen_value(rng, cls, p)


def specialise(rng, cls, args):
    """with probability 0.3 move one constructor argument to its documented default / the pre-seeded literal"""
    cand = [p for p in args if SPECIALS.get(cls, {}).get(p)]
    if cand and rng.random() < 0.3:
        p = rng.choice(cand)
        args[p] = rng.choice(SPECIALS[cls][p])
    return args


def gen_points(rng, cls, args):
    sx = args.get('stddev_x', args.get('stddev_waist', 0.01))
    sy = args.get('stddev_y', sx)
    z0 = args.get('mean_z', args.get('waist_z', 0.5))
    sz = args.get('pulse_length', 1e-9) * C_LIGHT if cls == 'TrivariateGaussian' else 1.0
    return [(0.0, 0.0, z0), (rng.uniform(-2, 2) * sx, rng.uniform(-2, 2) * sy, z0 + rng.uniform(-1.5, 1.5) * min(sz, 2.0))]


# ------------------------------------------------------------------------------------------ implementation
def construct(cls, args, pol=None):
    from raysect.core import Vector3D
    k = dict(args)
    if cls in SPECTRA:
        k['bins'] = int(k['bins'])
    elif pol is not None:
        k['polarization'] = Vector3D(*pol)
    return classes()[cls](**k)


def apply_op(obj, cls, p, v):
    from raysect.core import Vector3D
    if p == 'polarization':
        return call(obj.set_polarization, Vector3D(*v))[0]
    if p == 'bins':
        v = int(v)
    return call(setattr, obj, p, v)[0]


def _v(f, *a):
    """value, or the exception kind as a string (a raising observation is an observation, not a harness failure)"""
    st, r = call(f, *a)
    return r if st == 'ok' else 'raised:' + st


def observe(obj, cls, pts):
    """everything the property's observe_at list names, as plain python data"""
    o = {'getters': {p: _v(lambda p=p: float(getattr(obj, p))) for p in PARAMS[cls]}}
    if cls in PROFILES:
        o['dens'] = [_v(obj.get_energy_density, *p) for p in pts]
        o['pol'] = [_v(lambda p=p: tuple(obj.get_polarization(*p))) for p in pts]
        st, geom = call(obj.generate_geometry)
        if st == 'ok':
            segs = []
            for g in geom:
                t = g.transform
                pure = all(t[i, j] == (1.0 if i == j else 0.0) for i in range(4) for j in range(4) if (i, j) != (2, 3))
                segs.append((float(t[2, 3]), float(g.height), float(g.radius), pure))
            o['geom'] = segs
        else:
            o['geom'] = st
    else:
        o['wavelengths'] = _v(lambda: [float(x) for x in obj.wavelengths])
        o['psd'] = _v(lambda: [float(x) for x in obj.power_spectral_density])
        o['delta'] = _v(lambda: float(obj.delta_wavelength))
        o['methods'] = {m: _v(lambda m=m: float(getattr(obj, m)())) for m in METHOD_GETTERS}
        g = o['getters']
        o['eval'] = [_v(lambda x=x: float(obj(x))) for x in spectrum_points(g)] if not any(isinstance(v, str) for v in g.values()) else 'raised'
    return o


def _broken_obs(o):
    """an observation that raised somewhere"""
    def bad(x):
        if isinstance(x, str):
            return x.startswith('raised')
        if isinstance(x, dict):
            return any(bad(v) for v in x.values())
        if isinstance(x, (list, tuple)):
            return any(bad(v) for v in x)
        return False
    return bad({k: v for k, v in o.items() if k != 'geom'})


def spectrum_points(g):
    lo, hi = g['min_wavelength'], g['max_wavelength']
    return [0.5 * (lo + hi), lo + 0.3 * (hi - lo), lo, hi]


def same_obs(a, b, cls):
    """first differing observable between two observation dicts, or None"""
    if _broken_obs(a) or _broken_obs(b):
        return None if a == b else 'raising-observation'
    for p in PARAMS[cls]:
        if a['getters'][p] != b['getters'][p]:
            return 'getter(%s)' % p
    if cls in PROFILES:
        if not close(a['dens'], b['dens'], 1e-12, 1e-300):
            return 'energy_density'
        for u, v in zip(a['pol'], b['pol']):
            if not close(list(u), list(v), 1e-14, 1e-15):
                return 'polarization'
        if isinstance(a['geom'], str) or isinstance(b['geom'], str):
            return None if a['geom'] == b['geom'] else 'geometry'
        if len(a['geom']) != len(b['geom']) or any(not close(list(x[:3]), list(y[:3]), 1e-13, 0.0) for x, y in zip(a['geom'], b['geom'])):
            return 'geometry'
    else:
        if len(a['psd']) != len(b['psd']):
            return 'power_spectral_density'
        d = max(abs(a['delta']), 1e-300)
        if not close(a['wavelengths'], b['wavelengths'], 1e-13, 0.0):
            return 'wavelengths'
        if not close(a['psd'], b['psd'], 1e-12, 1e-15 / d):
            return 'power_spectral_density'
        if not close(a['delta'], b['delta'], 1e-13):
            return 'delta_wavelength'
        for m in METHOD_GETTERS:
            if a['methods'][m] != b['methods'][m]:
                return m
        if not close(a['eval'], b['eval'], 1e-12, 1e-300):
            return 'evaluate'
    return None


# ------------------------------------------------------------------------------------------------- driver
def new_line(cls, args):
    return 'new %s %s' % (cls, ' '.join('%s %s' % (k, f2b(v)) for k, v in args.items()))


def obs_lines(cls, pts, getters):
    L = []
    if cls in PROFILES:
        L += ['dens %s %s %s' % tuple(f2b(c) for c in p) for p in pts]
        L.append('geom')
        L += ['get ' + p for p in PARAMS[cls]]
    else:
        L += ['get ' + p for p in PARAMS[cls]]
        L += ['getl wavelengths', 'getl power_spectral_density', 'get delta_wavelength']
        L += ['get ' + m for m in METHOD_GETTERS]
        L += ['eval ' + f2b(x) for x in spectrum_points(getters)]
    return L


def compare_obs(cls, pts, ob, outs):
    """model output lines (for obs_lines) vs an implementation observation; returns first disagreement or None"""
    i = 0
    if _broken_obs(ob):
        return 'an observation of the implementation raised: %r' % ({k: v for k, v in ob.items() if k != 'geom'},)

    def flt(s):
        try:
            return [b2f(t) for t in s.split()]
        except ValueError:
            return None
    if cls in PROFILES:
        for k, p in enumerate(pts):
            m = flt(outs[i]); i += 1
            if m is None or not close(m[0], ob['dens'][k], 1e-9, 1e-300):
                return 'energy_density model=%s impl=%r' % (outs[i - 1], ob['dens'][k])
        g = outs[i]; i += 1
        if isinstance(ob['geom'], str):
            if g != ob['geom']:
                return 'geometry model=%s impl=%s' % (g, ob['geom'])
        else:
            toks = g.split()
            if toks[0] in ('ValueError',) or int(toks[0]) != len(ob['geom']):
                return 'geometry count model=%s impl=%d' % (toks[0], len(ob['geom']))
            vals = [b2f(t) for t in toks[1:]]
            for k, s in enumerate(ob['geom']):
                if not close(vals[3 * k:3 * k + 3], list(s[:3]), 1e-12, 0.0):
                    return 'geometry segment %d model=%r impl=%r' % (k, vals[3 * k:3 * k + 3], s)
        for p in PARAMS[cls]:
            m = flt(outs[i]); i += 1
            if m is None or m[0] != ob['getters'][p]:
                return 'getter %s model=%s impl=%r' % (p, outs[i - 1], ob['getters'][p])
    else:
        for p in PARAMS[cls]:
            m = flt(outs[i]); i += 1
            if m is None or m[0] != ob['getters'][p]:
                return 'getter %s model=%s impl=%r' % (p, outs[i - 1], ob['getters'][p])
        d = max(abs(ob['delta']), 1e-300)
        m = flt(outs[i]) if outs[i] else []; i += 1
        if m is None or not close(m, ob['wavelengths'], 1e-13, 0.0):
            return 'wavelengths model=%r impl=%r' % (m, ob['wavelengths'])
        m = flt(outs[i]) if outs[i] else []; i += 1
        if m is None or not close(m, ob['psd'], 1e-9, 4e-15 / d):
            return 'power_spectral_density model=%r impl=%r' % (m, ob['psd'])
        m = flt(outs[i]); i += 1
        if m is None or not close(m[0], ob['delta'], 1e-13):
            return 'delta_wavelength model=%s impl=%r' % (outs[i - 1], ob['delta'])
        for g in METHOD_GETTERS:
            m = flt(outs[i]); i += 1
            if m is None or m[0] != ob['methods'][g]:
                return '%s model=%s impl=%r' % (g, outs[i - 1], ob['methods'][g])
        for k in range(4):
            m = flt(outs[i]); i += 1
            if m is None or not close(m[0], ob['eval'][k], 1e-9, 1e-300):
                return 'evaluate model=%s impl=%r' % (outs[i - 1], ob['eval'][k])
    return None


# --------------------------------------------------------------------------------------------- S oracles
def quad_nodes(n):
    x, w = np.polynomial.legendre.leggauss(n)
    return x, w


def find_extent(f, scale):
    """smallest w = scale * 2^k beyond which f(w) has dropped below 1e-40 of the peak (shape-agnostic)"""
    peak = abs(f(0.0))
    w = scale
    for _ in range(60):
        if abs(f(w)) <= 1e-40 * peak and abs(f(-w)) <= 1e-40 * peak:
            return w
        w *= 1.5
    return w


def cross_section_integral(obj, z, sx, sy, n=160):
    wx = find_extent(lambda x: obj.get_energy_density(x, 0.0, z), 4 * sx)
    wy = find_extent(lambda y: obj.get_energy_density(0.0, y, z), 4 * sy)
    t, w = quad_nodes(n)
    f = obj.get_energy_density
    tot = 0.0
    for i in range(n):
        x = wx * t[i]
        row = 0.0
        for j in range(n):
            row += w[j] * f(x, wy * t[j], z)
        tot += w[i] * row
    return tot * wx * wy


def volume_integral(obj, mean_z, sx, sy, sz, n=72):
    wx = find_extent(lambda x: obj.get_energy_density(x, 0.0, mean_z), 4 * sx)
    wy = find_extent(lambda y: obj.get_energy_density(0.0, y, mean_z), 4 * sy)
    wz = find_extent(lambda z: obj.get_energy_density(0.0, 0.0, mean_z + z), 4 * sz)
    t, w = quad_nodes(n)
    f = obj.get_energy_density
    tot = 0.0
    for i in range(n):
        x = wx * t[i]
        for j in range(n):
            y = wy * t[j]
            s = 0.0
            for k in range(n):
                s += w[k] * f(x, y, mean_z + wz * t[k])
            tot += w[i] * w[j] * s
    return tot * wx * wy * wz


def line_integral(f, a, b, scale, centre):
    """∫_a^b f by composite 16-point Gauss–Legendre with panels no wider than scale/2 (only where f can be non-negligible)"""
    lo, hi = max(a, centre - 40 * scale), min(b, centre + 40 * scale)
    if hi <= lo:
        return 0.0
    npan = max(1, int(math.ceil((hi - lo) / (0.5 * scale))))
    npan = min(npan, 4000)
    t, w = quad_nodes(16)
    h = (hi - lo) / npan
    tot = 0.0
    for k in range(npan):
        c = lo + (k + 0.5) * h
        for i in range(16):
            tot += w[i] * f(c + 0.5 * h * t[i])
    return tot * 0.5 * h


def tiling_violation(segs, r, L):
    """None, or a description of how the segments fail to tile [0, L] exactly once"""
    if isinstance(segs, str):
        return 'generate_geometry raised ' + segs
    if not segs:
        return 'no segments'
    s = sorted(segs)
    tol = 4e-15 * max(L, 1e-300) * max(1, len(s))
    if abs(s[0][0]) != 0.0:
        return 'first segment starts at %r' % s[0][0]
    for a, b in zip(s, s[1:]):
        if abs(a[0] + a[1] - b[0]) > tol:
            return 'gap/overlap between z=%r+%r and %r' % (a[0], a[1], b[0])
    if abs(s[-1][0] + s[-1][1] - L) > tol:
        return 'last segment ends at %r, length %r' % (s[-1][0] + s[-1][1], L)
    if any(abs(x[1] - s[0][1]) > tol for x in s) or any(x[1] <= 0 for x in s):
        return 'unequal / non-positive heights'
    if any(x[2] != r for x in s):
        return 'segment radius differs from laser_radius'
    if any(not x[3] for x in s if len(x) > 3):
        return 'segment transform is not a pure z translation'
    return None


# ------------------------------------------------------------------------------------------- the streams
# ---------------------------------------------------------------- default / pre-seeded values, closed forms
def special_values(table):
    """{cls: {param: [values]}} — the documented constructor default of every argument and the literal the constructor
    pre-seeds the private field with (`self._x = 0.1` before `self.x = x`); and {cls: {param: default}}"""
    sp, dflt = {}, {}
    for k in table['classes']:
        cls = k['name']
        sp[cls], dflt[cls] = {}, {}
        own = {}
        for s_ in k['setters']:
            if s_['writes']:
                own[s_['writes'][0][0]] = s_['prop']
        for n, d in k.get('ctorDefaults', {}).items():
            try:
                v = float(d)
            except ValueError:
                continue
            dflt[cls][n] = v
            sp[cls].setdefault(n, [])
            if v not in sp[cls][n]:
                sp[cls][n].append(v)
        for o in k['ctor']:
            if o[0] == 'init' and o[1] in own:
                v = o[2][0] / 10.0 ** o[2][1]
                sp[cls].setdefault(own[o[1]], [])
                if v not in sp[cls][own[o[1]]]:
                    sp[cls][own[o[1]]].append(v)
    return sp, dflt


def _npdf(x, mu, s):
    return math.exp(-0.5 * ((x - mu) / s) ** 2) / (s * math.sqrt(2 * math.pi))


def closed_form(cls, g, x, y, z):
    """energy density from the class documentation (normalisation × unit-integral normal densities with the stated
    standard deviations; sigma_z = pulse_length * c for the trivariate pulse); None where the documentation leaves a
    convention open (Gaussian beam: Rayleigh range)"""
    if cls == 'UniformEnergyDensity':
        return g['energy_density']
    if cls == 'ConstantBivariateGaussian':
        return g['pulse_energy'] / (C_LIGHT * g['pulse_length']) * _npdf(x, 0.0, g['stddev_x']) * _npdf(y, 0.0, g['stddev_y'])
    if cls == 'TrivariateGaussian':
        return g['pulse_energy'] * _npdf(x, 0.0, g['stddev_x']) * _npdf(y, 0.0, g['stddev_y']) * _npdf(z, g['mean_z'], g['pulse_length'] * C_LIGHT)
    return None


def closed_form_violation(cls, ob, pts):
    """None, or a description of the first point where the observed energy density is not the documented closed form
    of the parameters the object reports"""
    if cls not in PROFILES or _broken_obs(ob):
        return None
    g = ob['getters']
    for pt, val in zip(pts, ob['dens']):
        want = closed_form(cls, g, *pt)
        if want is None:
            return None
        if not close(val, want, 1e-9, 1e-300):
            return 'get_energy_density%r = %r, closed form of the reported parameters %r' % (tuple(pt), val, want)
    return None


def ctor_culprits(ctx, cls, args, pts, sp):
    """which constructor arguments must sit at a default / pre-seeded value for the freshly constructed object to
    miss its closed form (greedy shrink; used only to make the signature name the input class)"""
    def fails(a):
        st_, o_ = call(construct, cls, a)
        return st_ == 'ok' and closed_form_violation(cls, observe(o_, cls, pts), pts) is not None
    cur = dict(args)
    special = [p_ for p_ in PARAMS[cls] if cur.get(p_) in sp.get(cls, {}).get(p_, [])]
    for p_ in list(special):
        trial = dict(cur)
        for _ in range(20):
            v_ = gen_value(ctx.rng, cls, p_)
            if v_ not in sp[cls].get(p_, []):
                break
        trial[p_] = v_
        if fails(trial):
            cur = trial
            special.remove(p_)
    return special


class Stream:
    """collects driver lines and the callbacks that judge the corresponding output lines"""

    def __init__(self):
        self.lines = []
        self.judges = []        # (start, count, fn(outs) -> None | str, name, detail)

    def add(self, lines, fn, name, detail):
        self.judges.append((len(self.lines), len(lines), fn, name, detail))
        self.lines += lines


class _Listener:
    def __init__(self):
        self.n = 0

    def hit(self):
        self.n += 1


def run_history(ctx, st, cls, args, ops, pts, record, pol=None, omit=(), sp=None):
    """construct (arguments in `omit` are left to their defaults; the model still gets the documented value), apply ops;
    K lines for the model; S: fresh-object, closed-form, atomicity, notification oracles after every op."""
    rng = ctx.rng
    sp = sp or SPECIALS
    status, obj = call(construct, cls, {k_: v_ for k_, v_ in args.items() if k_ not in omit}, pol)
    st.add([new_line(cls, args)], lambda o, s=status: None if o[0] == s else 'constructor model=%s impl=%s' % (o[0], s),
           'history:' + cls, dict(cls=cls, args=args))
    if status != 'ok':
        ctx.count('ctor-rejected')
        return
    consistent = True
    done = []
    listener = _Listener()
    if cls in PROFILES:
        obj.notifier.add(listener.hit)
    for (p, v) in [(None, None)] + list(ops):
        if p is not None:
            before = observe(obj, cls, pts)
            n0 = listener.n
            res = apply_op(obj, cls, p, v)
            dn = listener.n - n0
            done.append((p, v))
            ctx.count('op:%s:%s' % (p, 'ok' if res == 'ok' else 'rejected'))
            if p != 'polarization':
                def judge_set(o, r=res, dn=dn, prof=cls in PROFILES):
                    if not (o[1] == ('ok' if r == 'ok' else 'ValueError') and r in ('ok', 'ValueError')):
                        return 'set result model=%s impl=%s' % (o[1], r)
                    if prof and int(o[2]) - int(o[0]) != dn:
                        return 'notifications model=%d impl=%d' % (int(o[2]) - int(o[0]), dn)
                    return None
                st.add(['notified', 'set %s %s' % (p, f2b(v)), 'notified'], judge_set,
                       'history:' + cls, dict(cls=cls, args=args, ops=list(done)))
        ob = observe(obj, cls, pts)
        record['traces'] += 1
        st.add(obs_lines(cls, pts, ob['getters']), lambda o, ob=ob: compare_obs(cls, pts, ob, o), 'history:' + cls,
               dict(cls=cls, args=args, ops=list(done), points=pts))
        # ---- S: direct oracles, no model -------------------------------------------------------------------
        rep = dict(kind='history', cls=cls, args=args, pol=pol, ops=list(done), points=pts)
        if p is not None and p != 'polarization':
            if res == 'ok' and cls in PROFILES and dn == 0 and not isinstance(before['geom'], str) and before['geom'] != ob['geom']:
                ctx.fail('C18:%s:set(%s)->geometry-changed-without-notify' % (cls, p),
                         '%s.%s = %r changes generate_geometry() (%d -> %d segments) but notifier.notify() was not called, so an attached Laser keeps the old segments'
                         % (cls, p, v, len(before['geom']), len(ob['geom'])), rep)
            if res == 'ok' and float(getattr(obj, p)) != float(v if p != 'bins' else int(v)):
                ctx.fail('C18:%s:set(%s)->reports-other-value' % (cls, p), '%s.%s = %r accepted but reports %r' % (cls, p, v, getattr(obj, p)), rep)
            if res != 'ok' and consistent:
                d = same_obs(before, ob, cls)
                if d is not None:
                    ctx.fail('C18:%s:set(%s)->rejected-value-stored' % (cls, p),
                             '%s.%s = %r raised %s but changed %s (atomicity: a rejected assignment must leave the object as it was)' % (cls, p, v, res, d), rep)
                    consistent = False
        if cls in SPECTRA:
            for m, prop in METHOD_GETTERS.items():
                if ob['methods'][m] != (ob['getters'][prop] if prop != 'delta_wavelength' else ob['delta']):
                    ctx.fail('C18:LaserSpectrum:%s->returns-other-than(%s)' % (m, prop),
                             '%s.%s() = %r but %s = %r' % (cls, m, ob['methods'][m], prop, ob['getters'].get(prop, ob['delta'])), rep)
        # fresh object from the reported parameters
        fargs = dict(ob['getters'])
        fpol = ob['pol'][0] if cls in PROFILES else None
        fs, fresh = call(construct, cls, fargs, fpol)
        if fs != 'ok':
            if consistent:
                ctx.fail('C18:%s:set(%s)->reported-parameters-not-constructible' % (cls, p),
                         '%s reports %r after %r; constructing a fresh object from them raises %s' % (cls, fargs, done[-1:], fs), rep)
                consistent = False
            continue
        fo = observe(fresh, cls, pts)
        d = same_obs(ob, fo, cls)
        cf_obj = closed_form_violation(cls, ob, pts)
        cf_fresh = closed_form_violation(cls, fo, pts)
        if (cf_fresh is not None and cf_obj is None) or (cf_obj is not None and d is None and (p is None or consistent)):
            # the object built by the *constructor* from these parameters misses the documented density (the one reached
            # through setters may be right): name the constructor arguments that have to sit at a default / pre-seeded value
            who = ctor_culprits(ctx, cls, fargs, pts, sp)
            if cf_obj is not None and d is None and p is not None and not who:
                ctx.fail('C18:%s:set(%s)->energy_density!=closed-form' % (cls, p), '%s after %r: %s' % (cls, done, cf_obj), rep)
            else:
                ctx.fail('C18:%s:ctor[%s]->energy_density!=closed-form' % (cls, ','.join('%s@default/pre-seed' % w for w in who)),
                         '%s(**%r): %s' % (cls, fargs, cf_fresh or cf_obj), dict(kind='history', cls=cls, args=fargs, pol=None, ops=[], points=pts))
            consistent = d is None
            continue
        if d is not None:
            if consistent:
                ctx.fail('C18:%s:set(%s)->stale(%s)' % (cls, p, d),
                         '%s after %r: %s differs from a freshly constructed object with the reported parameters %r' % (cls, done, d, fargs), rep)
            consistent = False
        else:
            consistent = True
    key = (cls, tuple(p for p, _ in ops), tuple('bad' if (isinstance(v, float) and v <= 0 and p not in UNSIGNED) else 'ok' for p, v in ops))
    ctx.case(key=key, sample=dict(cls=cls, args=args, ops=ops) if rng.random() < 0.02 else None)


def histories(ctx, st, record):
    rng = ctx.rng
    import itertools
    depth = 2 if ctx.tier == 'quick' else 3
    for cls in PROFILES + SPECTRA:
        props = list(PARAMS[cls]) + (['polarization'] if cls in PROFILES else [])
        # all single setters, then all ordered pairs (quick) / triples (thorough) of setters
        seqs = [(p,) for p in props] * 3
        seqs += list(itertools.product(props, repeat=2)) * (3 if depth == 2 else 6)
        if depth == 3:
            seqs += list(itertools.product(props, repeat=3))
        for seq in seqs:
            args = specialise(rng, cls, gen_args(rng, cls))
            state = dict(args)
            ops = []
            for p in seq:
                p, v = gen_op(rng, cls, p, state)
                ops.append((p, v))
                if p in state and isinstance(v, float) and (v > 0 or p in UNSIGNED):
                    state[p] = v
            pol = [rng.uniform(-1, 1), rng.uniform(-1, 1), rng.uniform(0.1, 1)] if cls in PROFILES else None
            run_history(ctx, st, cls, args, ops, gen_points(rng, cls, args), record, pol)
        ctx.count('sequences:' + cls, len(seqs))
        # longer random histories
        for _ in range(ctx.n(40, 1200)):
            args = specialise(rng, cls, gen_args(rng, cls))
            state = dict(args)
            ops = []
            for _ in range(rng.randint(4, 9)):
                p, v = gen_op(rng, cls, rng.choice(props), state)
                ops.append((p, v))
                if p in state and isinstance(v, float) and (v > 0 or p in UNSIGNED):
                    state[p] = v
            pol = [rng.uniform(-1, 1), rng.uniform(-1, 1), rng.uniform(0.1, 1)] if cls in PROFILES else None
            run_history(ctx, st, cls, args, ops, gen_points(rng, cls, args), record, pol)


def segments_stream(ctx, st, record):
    from cherab.core.model.laser.profile import generate_segmented_cylinder
    rng = ctx.rng
    cases = []
    for _ in range(ctx.n(1500, 20000)):
        r = rng.choice([0.05, 0.5, 1.0, rng.uniform(1e-3, 2.0)])
        L = rng.choice([1.0, 0.04, 10.0, rng.uniform(1e-3, 20.0), r * rng.uniform(0.1, 6.0)])
        cases.append((r, L, 'random'))
    # exact stream: dyadic radius, length an exact multiple (or half multiple) of 2r, and lengths below 2r
    for _ in range(ctx.n(500, 5000)):
        r = 2.0 ** rng.randint(-6, 1)
        m = rng.choice([1, 2, 3, 4, 5, 8, 16, 31])
        L = rng.choice([2 * r * m, r * m, 2 * r * m + r / 2, r / 2, 2 * r, 4 * r])
        cases.append((r, L, 'dyadic'))
    for r, L, kind in cases:
        stt, geom = call(generate_segmented_cylinder, r, L)
        segs = [(float(g.transform[2, 3]), float(g.height), float(g.radius), True) for g in geom] if stt == 'ok' else stt
        if True:
            def judge(o, segs=segs, r=r, L=L):
                toks = o[0].split()
                if isinstance(segs, str):
                    return None if toks[0] == segs else 'model=%s impl=%s' % (toks[0], segs)
                if toks[0] == 'ValueError' or int(toks[0]) != len(segs):
                    return 'segment count model=%s impl=%d (r=%r L=%r)' % (toks[0], len(segs), r, L)
                vals = [b2f(t) for t in toks[1:]]
                for k, s in enumerate(segs):
                    if not close(vals[3 * k:3 * k + 3], list(s[:3]), 1e-13, 0.0):
                        return 'segment %d model=%r impl=%r' % (k, vals[3 * k:3 * k + 3], s)
                return None
            st.add(['seg %s %s' % (f2b(r), f2b(L))], judge, 'segments', dict(radius=r, length=L))
            record['traces'] += 1
        # S: tiling, directly on the implementation's primitives
        why = tiling_violation(segs, r, L)
        if why is not None:
            ctx.fail('C18:generate_segmented_cylinder:tiling', 'radius=%r length=%r: %s' % (r, L, why), dict(kind='segments', radius=r, length=L))
        # number of segments is the exact floor (python's // on floats is exact; monitor)
        from fractions import Fraction
        nex = max(1, int(Fraction(L) / Fraction(2 * r)))
        if isinstance(segs, list) and len(segs) != nex:
            ctx.count('segments-count-differs-from-exact-floor')
        ctx.case(key=('seg', f2b(r), f2b(L)), sample=dict(radius=r, length=L, n=len(segs) if isinstance(segs, list) else segs) if rng.random() < 0.01 else None)
        ctx.count('segments:' + ('single' if isinstance(segs, list) and len(segs) == 1 else 'multi'))


def spectra_stream(ctx, st, record, table=None):
    rng = ctx.rng
    kinds = {k['name']: k['binPsd'] for k in (table or {}).get('classes', [])}
    const_cmd = 'specd' if kinds.get('ConstantSpectrum') == 'constDensity' else 'specc'
    C = classes()
    for it in range(ctx.n(600, 16000)):
        lo = rng.choice([1059.0, 1039.9, rng.uniform(200.0, 2000.0)])
        width = rng.choice([2.0, 0.2, 10.0, rng.uniform(0.01, 50.0)])
        hi = lo + width
        n = rng.choice([1, 1, 2, 3, 5, 10, 17, 64, rng.randint(1, 120)])
        if it % 2 == 0:
            s = C['ConstantSpectrum'](lo, hi, n)
            wl, psd, d = [float(x) for x in s.wavelengths], [float(x) for x in s.power_spectral_density], float(s.delta_wavelength)

            def judge(o, wl=wl, psd=psd):
                m = [b2f(t) for t in o[0].split()]
                # same operations in the same order: exact comparison (this is where the model must reproduce the
                # rounding of `wavelengths[0] - delta/2` against the support edge)
                return None if m == wl + psd else 'model=%r impl=%r' % (m, wl + psd)
            st.add(['%s %s %s %d' % (const_cmd, f2b(lo), f2b(hi), n)], judge, 'spectrum:constant', dict(min=lo, max=hi, bins=n))
            record['traces'] += 1
            # S: range = support of the line  =>  bin powers sum to one, each bin = width * density
            tot = sum(p * d for p in psd)
            dens = 1.0 / (hi - lo)
            bad = [i for i, p in enumerate(psd) if not close(p, dens, 1e-12)]
            if abs(tot - 1.0) > 1e-9 or bad:
                ctx.fail('C18:ConstantSpectrum:edge-bin-density',
                         'ConstantSpectrum(%r, %r, %d): power_spectral_density[%s] = %r instead of 1/(max-min) = %r; sum of bin powers = %r'
                         % (lo, hi, n, bad[:3], [psd[i] for i in bad[:3]], dens, tot),
                         dict(kind='spectrum_sum', cls='ConstantSpectrum', args=dict(min_wavelength=lo, max_wavelength=hi, bins=n)))
            ctx.count('spectrum:constant:' + ('sum=1' if abs(tot - 1.0) <= 1e-9 else 'sum!=1'))
            ctx.case(key=('specc', f2b(lo), f2b(hi), n), sample=dict(cls='ConstantSpectrum', min=lo, max=hi, bins=n) if rng.random() < 0.02 else None)
        else:
            sd = rng.choice([0.3, width / 8, width / 20, rng.uniform(0.02, 3.0)])
            mean = rng.choice([0.5 * (lo + hi), rng.uniform(lo, hi), lo - sd, hi + 2 * sd])
            s = C['GaussianSpectrum'](lo, hi, n, mean, sd)
            wl, psd, d = [float(x) for x in s.wavelengths], [float(x) for x in s.power_spectral_density], float(s.delta_wavelength)

            def judge(o, wl=wl, psd=psd, d=d):
                m = [b2f(t) for t in o[0].split()]
                if not close(m[:len(wl)], wl, 1e-13, 0.0):
                    return 'wavelengths model=%r impl=%r' % (m[:len(wl)], wl)
                if not close(m[len(wl):], psd, 1e-9, 4e-15 / d):
                    return 'psd model=%r impl=%r' % (m[len(wl):], psd)
                return None
            st.add(['specg %s %s %d %s %s' % (f2b(lo), f2b(hi), n, f2b(mean), f2b(sd))], judge, 'spectrum:gaussian',
                   dict(min=lo, max=hi, bins=n, mean=mean, stddev=sd))
            record['traces'] += 1
            # S: bin power = ∫ spectrum(x) over the bin (quadrature of the object's own density), centres, total
            rep = dict(kind='spectrum_bins', cls='GaussianSpectrum', args=dict(min_wavelength=lo, max_wavelength=hi, bins=n, mean=mean, stddev=sd))
            nb = min(n, 12)
            for i in sorted(set(rng.sample(range(n), nb))):
                a, b = lo + i * d, lo + (i + 1) * d
                q = line_integral(s, a, b, sd, mean)
                if not close(psd[i] * d, q, 1e-8, 1e-12):
                    ctx.fail('C18:GaussianSpectrum:bin-power!=integral', 'bin %d of GaussianSpectrum(%r,%r,%d,%r,%r): power %r, ∫density = %r' % (i, lo, hi, n, mean, sd, psd[i] * d, q), rep)
                if not close(wl[i], 0.5 * (a + b), 1e-13):
                    ctx.fail('C18:LaserSpectrum:wavelengths-not-bin-centres', 'wavelengths[%d] = %r, bin [%r, %r]' % (i, wl[i], a, b), rep)
            tot = sum(p * d for p in psd)
            whole = line_integral(s, lo, hi, sd, mean)
            if not close(tot, whole, 1e-8, 1e-12):
                ctx.fail('C18:GaussianSpectrum:sum-power!=integral', 'sum of bin powers %r, ∫_min^max density = %r' % (tot, whole), rep)
            if lo <= mean - 9 * sd and mean + 9 * sd <= hi and abs(tot - 1.0) > 1e-12:
                ctx.fail('C18:GaussianSpectrum:sum-power!=1', 'range spans the line (±9σ) but the bin powers sum to %r' % tot, rep)
            ctx.count('spectrum:gaussian:' + ('spans-line' if lo <= mean - 9 * sd and mean + 9 * sd <= hi else 'partial'))
            ctx.case(key=('specg', f2b(lo), f2b(hi), n, f2b(mean), f2b(sd)), sample=rep if rng.random() < 0.02 else None)


def defaults_stream(ctx, st, record, dflt):
    """constructor cases at the documented defaults and at the literals the constructor pre-seeds its private fields
    with: all defaults (arguments omitted), every argument omitted on its own, every argument passed explicitly at each
    special value, all arguments at their pre-seeded literals; each followed by nothing / "set to the same value again" /
    "set to another value and back".  The model is always given the explicit values."""
    rng = ctx.rng
    for cls in PROFILES + SPECTRA:
        sp = SPECIALS.get(cls, {})
        d = dflt.get(cls, {})
        params = PARAMS[cls]
        cases = []
        if d and all(p in d for p in params):
            cases.append((dict((p, d[p]) for p in params), tuple(params), 'all-defaults'))
        for p in params:
            if p in d:
                a = gen_args(rng, cls); a[p] = d[p]
                cases.append((a, (p,), 'omitted:' + p))
            for v in sp.get(p, []):
                a = gen_args(rng, cls); a[p] = v
                cases.append((a, (), 'explicit:%s' % p))
        if sp:
            a = gen_args(rng, cls)
            for p in params:
                if sp.get(p):
                    a[p] = sp[p][-1]          # the pre-seeded literal (last collected), else the default
            cases.append((a, (), 'all-pre-seeded'))
        if cls in SPECTRA:
            cases.append((gen_args(rng, cls), (), 'spectrum'))
        for a, omit, kind in cases:
            pts = gen_points(rng, cls, a)
            tests = [[]]
            for p in params:
                tests.append([(p, a[p])])                                        # same value again
                if cls in SPECTRA and p in ('min_wavelength', 'max_wavelength'):
                    other = a[p] + (-0.001 if p == 'min_wavelength' else 0.001)
                else:
                    other = gen_value(rng, cls, p)
                tests.append([(p, other), (p, a[p])])                            # away and back
            if ctx.tier == 'quick' and len(tests) > 7:
                tests = [tests[0]] + rng.sample(tests[1:], 6)
            for ops in tests:
                run_history(ctx, st, cls, dict(a), ops, pts, record, None, omit)
            ctx.count('defaults:%s:%s' % (cls, kind.split(':')[0]), len(tests))


def attached_play(spec, init, ops):
    """Several live `Laser` nodes in one world, each fully configured (plasma, spectrum, one Thomson model).
    spec: list of (cls, args) for the profiles; init: profile index initially attached to laser i;
    ops: ('attach', laser, profile) | ('set', profile, prop, value) | ('importance', laser, value).
    After the set-up and after every op, for EVERY laser: the primitives of get_geometry() are children of that laser
    only, are objects distinct from every other laser's segments, tile [0, L] at radius r of the profile that laser
    currently holds, the laser has no other cylinder children, every segment carries a LaserMaterial with the laser's
    current importance and integrator, and segments + material kind equal those of a laser freshly built around a
    fresh profile with the same reported parameters.
    Returns None or (index of the first op after which this fails, failure class, description)."""
    from raysect.optical import World
    from raysect.primitive import Cylinder
    from cherab.core import Plasma
    from cherab.core.laser.node import Laser
    from cherab.core.laser.material import LaserMaterial
    from cherab.core.model.laser.model import SeldenMatobaThomsonSpectrum
    C = classes()

    def configured(world, prof):
        laser = Laser(parent=world)
        laser.laser_spectrum = C['ConstantSpectrum'](1059.0, 1061.0, 3)
        laser.plasma = Plasma(parent=world)
        laser.laser_profile = prof
        laser.models = [SeldenMatobaThomsonSpectrum()]
        return laser

    def segs_of(laser):
        out = []
        for g in laser.get_geometry():
            t = g.transform
            pure = all(t[i, j] == (1.0 if i == j else 0.0) for i in range(4) for j in range(4) if (i, j) != (2, 3))
            out.append((float(t[2, 3]), float(g.height), float(g.radius), pure))
        return out

    def check_laser(li, laser, prof, seen):
        """all references to the laser taken here die with this frame"""
        geom = laser.get_geometry()
        who = 'laser %d holding %s(laser_length=%r, laser_radius=%r)' % (li, type(prof).__name__, prof.laser_length, prof.laser_radius)
        for g in geom:
            if id(g) in seen:
                return 'segments-shared-between-lasers', '%s: a segment object is also listed by laser %d' % (who, seen[id(g)])
            seen[id(g)] = li
        if any(g.parent is not laser for g in geom):
            return 'segments-not-children-of-their-laser', '%s: a segment of get_geometry() has another parent' % who
        segs = segs_of(laser)
        why = tiling_violation(segs, float(prof.laser_radius), float(prof.laser_length))
        if why is None:
            kids = [c for c in laser.children if isinstance(c, Cylinder)]
            if len(kids) != len(segs):
                why = 'the laser has %d cylinder children but get_geometry() lists %d' % (len(kids), len(segs))
        if why is not None:
            return 'segments-do-not-tile-current-profile', '%s: %s' % (who, why)
        for g in geom:
            m = g.material
            if not isinstance(m, LaserMaterial):
                return 'segment-material-not-LaserMaterial', '%s: a segment carries %s, so the laser no longer scatters' % (who, type(m).__name__)
            if m.importance != laser.importance or m.integrator is not laser.integrator:
                return 'segment-material-stale-settings', '%s: material importance %r / integrator differ from the laser (%r)' % (who, m.importance, laser.importance)
        # a laser freshly built around a fresh profile with the same reported parameters
        st_, fp = call(construct, type(prof).__name__, {p_: float(getattr(prof, p_)) for p_ in PARAMS[type(prof).__name__]})
        if st_ == 'ok':
            fl = configured(World(), fp)
            fs_ = segs_of(fl)
            if len(fs_) != len(segs) or any(not close(list(x[:3]), list(y[:3]), 1e-13, 0.0) for x, y in zip(sorted(segs), sorted(fs_))):
                return 'segments-differ-from-fresh-laser', '%s: %d segments, a freshly built laser has %d' % (who, len(segs), len(fs_))
            if sorted(type(g.material).__name__ for g in geom) != sorted(type(g.material).__name__ for g in fl.get_geometry()):
                return 'segment-material-not-LaserMaterial', '%s: material kinds differ from a freshly built laser' % who
        return None

    def drop(lasers, li):
        """discard a laser: out of the scene graph, no reference left, collected"""
        la = lasers[li]
        if la is None:
            return
        la.parent = None
        lasers[li] = None
        del la
        gc.collect()

    import gc
    world = World()
    profs = [construct(c, a) for c, a in spec]
    cur = list(init)
    lasers = [configured(world, profs[i]) for i in cur]
    for k, op in enumerate([None] + list(ops)):
        if op is not None:
            if op[0] == 'attach':
                if lasers[op[1]] is not None:
                    lasers[op[1]].laser_profile = profs[op[2]]
                    cur[op[1]] = op[2]
            elif op[0] == 'importance':
                if lasers[op[1]] is not None:
                    lasers[op[1]].importance = op[2]
            elif op[0] == 'drop':
                drop(lasers, op[1])
            else:
                call(setattr, profs[op[1]], op[2], op[3])
        seen = {}
        for li in range(len(lasers)):
            if lasers[li] is None:
                continue
            bad = check_laser(li, lasers[li], profs[cur[li]], seen)
            if bad is not None:
                return k - 1, bad[0], bad[1]
    return None


def subscription_table(spec, init, ops):
    """which lasers are registered on which profile's notifier after the (re)assignments of a history (bare lasers;
    the subscription protocol does not depend on plasma / models)"""
    from raysect.optical import World
    from cherab.core.laser.node import Laser
    world = World()
    profs = [construct(c, a) for c, a in spec]
    lasers = [Laser(parent=world) for _ in init]
    pairs = [(i, p_) for i, p_ in enumerate(init)] + [(o[1], o[2]) for o in ops if o[0] == 'attach']
    for l_, p_ in pairs:
        lasers[l_].laser_profile = profs[p_]
    out = []
    for pr in profs:
        regs = []
        for ref in pr.notifier._callbacks_refs:
            inst = ref[0]() if isinstance(ref, tuple) else None
            regs.append(str(next((i for i, la in enumerate(lasers) if la is inst), -1)))
        out.append(','.join(regs))
    return pairs, '|'.join(out) + '|'


def attached_stream(ctx, st=None, record=None):
    """S: the geometry clause for profiles *attached to Laser nodes*: one to three live lasers in one world, profiles
    shared between lasers / distinct with equal parameters / different; profile setters interleaved with
    (re)assignments `laser.laser_profile = same / other / shared profile` and importance changes."""
    rng = ctx.rng
    import itertools

    def kinds(init, ops):
        cur, out = list(init), []
        for op in ops:
            if op[0] == 'attach':
                k_ = 'attach-same' if cur[op[1]] == op[2] else ('attach-shared' if op[2] in cur else 'attach-other')
                cur[op[1]] = op[2]
            elif op[0] == 'importance':
                k_ = 'importance'
            elif op[0] == 'drop':
                k_ = 'drop-first-registered' if op[1] == 0 else 'drop'
                cur[op[1]] = None
            else:
                n_ = cur.count(op[1])
                k_ = 'set(%s)%s' % ('geometry' if op[2] in ('laser_length', 'laser_radius') else op[2],
                                    '@detached' if n_ == 0 else ('@shared' if n_ > 1 else ''))
            out.append(k_)
        return out

    reported = set()

    def report(spec, init, ops):
        bad = attached_play(spec, init, ops)
        if bad is None:
            return
        if bad[1] in reported:           # one (the smallest: plans are enumerated by size) failing input per failure class
            ctx.count('attached:further-failures:' + bad[1])
            return
        reported.add(bad[1])
        ops = list(ops[:bad[0] + 1])
        changed = True
        while changed:                       # drop operations that are not needed for the same failure class
            changed = False
            for i in range(len(ops) - 1, -1, -1):
                trial = ops[:i] + ops[i + 1:]
                b2 = attached_play(spec, init, trial)
                if b2 is not None and b2[1] == bad[1]:
                    ops, changed = trial, True
        bad = attached_play(spec, init, ops)
        shared = 'shared-profile' if len(set(init)) < len(init) else ('equal-parameter-profiles' if any(
            spec[i] == spec[j] for i in init for j in init if i != j) else 'different-profiles')
        setup = '%d-lasers:%s' % (len(init), shared) if len(init) > 1 else '1-laser'
        ctx.fail('C18:Laser:attached[%s](%s)->%s' % (setup, '>'.join(kinds(init, ops)[-2:]), bad[1]),
                 'profiles %r initially attached %r, operations %r: %s' % ([c for c, _ in spec], init, ops, bad[2]),
                 dict(kind='attached', spec=[[c, a] for c, a in spec], init=list(init), ops=[list(o) for o in ops]))

    def k_subs(spec, init, ops):
        # K: the subscription state machine of the model (Model/Laser.lean `attachAll`) against the notifiers
        if st is None or any(o[0] == 'drop' for o in ops):
            return
        pairs, tab = subscription_table(spec, init, ops)
        st.add(['subs %d %s' % (len(spec), ' '.join('%d %d' % pr_ for pr_ in pairs))],
               lambda o, tab=tab: None if o[0] == tab else 'subscriptions model=%s impl=%s' % (o[0], tab),
               'subscriptions', dict(profiles=[c for c, _ in spec], attach=pairs))
        record['traces'] += 1

    def make_spec():
        """p0, p1 = distinct object with the parameters of p0, p2 = another class / other parameters"""
        c0 = rng.choice(PROFILES)
        a0 = gen_args(rng, c0)
        c2 = rng.choice(PROFILES)
        return [(c0, a0), (c0, dict(a0)), (c2, gen_args(rng, c2))]

    # direct calls: two generate_geometry() / generate_segmented_cylinder() calls return distinct primitive objects
    from cherab.core.model.laser.profile import generate_segmented_cylinder
    for _ in range(ctx.n(20, 200)):
        c = rng.choice(PROFILES)
        a = gen_args(rng, c)
        pr, pr2 = construct(c, a), construct(c, dict(a))
        g1, g2, g3 = pr.generate_geometry(), pr.generate_geometry(), pr2.generate_geometry()
        h1, h2 = generate_segmented_cylinder(a['laser_radius'], a['laser_length']), generate_segmented_cylinder(a['laser_radius'], a['laser_length'])
        ids = [id(x) for grp in (g1, g2, g3, h1, h2) for x in grp]
        if len(set(ids)) != len(ids):
            ctx.fail('C18:generate_geometry:returns-the-same-primitive-objects-twice',
                     '%s(laser_radius=%r, laser_length=%r): repeated generate_geometry()/generate_segmented_cylinder() calls return the same Cylinder '
                     'objects, so a second Laser re-parents the first one\'s segments' % (c, a['laser_radius'], a['laser_length']),
                     dict(kind='geometry_identity', cls=c, args=a))
        ctx.count('attached:direct-identity')

    # one laser: every sequence of up to 3 / 4 concrete operations
    alpha1 = [('attach', 0, 0), ('attach', 0, 2), ('set', 0, 'laser_length'), ('set', 0, 'laser_radius'), ('set', 2, 'laser_length'),
              ('importance', 0)]
    # two lasers: initial (p0, p1 equal parameters) and (p0, p0 shared)
    alpha2 = [('attach', l, p_) for l in (0, 1) for p_ in (0, 1, 2)] + [('set', 0, 'laser_length'), ('set', 1, 'laser_length'),
              ('set', 2, 'laser_length'), ('set', 0, 'laser_radius'), ('importance', 1), ('drop', 0), ('drop', 1)]

    def concrete(spec, o):
        if o[0] == 'set':
            return ('set', o[1], o[2], gen_value(rng, spec[o[1]][0], o[2]))
        if o[0] == 'importance':
            return ('importance', o[1], rng.choice([0.0, 1.0, 2.5, 10.0]))
        return o
    n1 = 3 if ctx.tier == 'quick' else 4
    n2 = 2 if ctx.tier == 'quick' else 3
    plans = [((0,), q) for n in range(0, n1 + 1) for q in itertools.product(alpha1, repeat=n)]
    alpha2_small = [('attach', 0, 0), ('attach', 1, 0), ('attach', 0, 2), ('set', 0, 'laser_length'), ('drop', 0), ('drop', 1)]
    for init in ((0, 1), (0, 0), (0, 2)):
        plans += [(init, q) for n in range(0, 3) for q in itertools.product(alpha2, repeat=n)]
        if n2 >= 3:             # thorough: length-3 sequences over the reduced alphabet (13^3 full sequences cost > 15 min)
            plans += [(init, q) for q in itertools.product(alpha2_small, repeat=3)]
    plans += [((0, 0, 1), q) for n in range(0, 2) for q in itertools.product(alpha2, repeat=n)]
    for init, q in plans:
        spec = make_spec()
        ops = [concrete(spec, o) for o in q]
        report(spec, init, ops)
        k_subs(spec, init, ops)
        ctx.case(key=('attached', init) + tuple(o[:3] for o in q),
                 sample=dict(profiles=[c for c, _ in spec], init=init, ops=ops) if rng.random() < 0.01 else None)
    ctx.count('attached:enumerated', len(plans))
    for _ in range(ctx.n(60, 500)):
        spec = make_spec()
        nl = rng.choice([1, 2, 2, 3])
        init = tuple(rng.randrange(3) for _ in range(nl))
        ops = []
        for _ in range(rng.randint(4, 10)):
            u = rng.random()
            i = rng.randrange(3)
            if u < 0.4:
                ops.append(('attach', rng.randrange(nl), i))
            elif u < 0.5:
                ops.append(('importance', rng.randrange(nl), rng.choice([0.0, 1.0, 3.0])))
            elif u < 0.58 and nl > 1:
                ops.append(('drop', rng.randrange(nl)))
            else:
                pr = rng.choice(['laser_length', 'laser_length', 'laser_radius', 'laser_radius'] + PARAMS[spec[i][0]])
                ops.append(('set', i, pr, gen_value(rng, spec[i][0], pr)))
        report(spec, init, ops)
        k_subs(spec, init, ops)
        ctx.case(key=('attached-random', init, tuple(kinds(init, ops))))
        ctx.count('attached:random')


def copies_stream(ctx, st, record):
    """an object and its copy.copy / copy.deepcopy / pickle round trip are separate objects: after any setter history on
    either, EACH object's observations (energy density, polarisation, segments, getters / binned spectrum) equal those of
    an object freshly constructed from ITS OWN reported parameters (and the closed form), and a change on one leaves
    every observation of the other untouched.  K: the model keeps two values (`dup`), each compared with its object."""
    import copy
    import pickle
    rng = ctx.rng
    makers = [('copy', copy.copy), ('deepcopy', copy.deepcopy), ('pickle', lambda o_: pickle.loads(pickle.dumps(o_)))]
    names = ['original', 'copy']
    for cls in PROFILES + SPECTRA:
        props = list(PARAMS[cls]) + (['polarization'] if cls in PROFILES else [])
        for how, mk in makers:
            for _ in range(ctx.n(6, 40)):
                args = specialise(rng, cls, gen_args(rng, cls))
                pts = gen_points(rng, cls, args)
                pol = [rng.uniform(-1, 1), rng.uniform(-1, 1), rng.uniform(0.1, 1)] if cls in PROFILES else None
                a = construct(cls, args, pol)
                lines, pre = [new_line(cls, args)], []
                state = [dict(args), None]
                for _ in range(rng.randint(0, 2)):                     # a short history before the copy
                    p_, v_ = gen_op(rng, cls, rng.choice(PARAMS[cls]), state[0])
                    r_ = apply_op(a, cls, p_, v_)
                    pre.append((p_, v_))
                    lines.append('set %s %s' % (p_, f2b(v_)))
                    if r_ == 'ok':
                        state[0][p_] = v_
                st_, b = call(mk, a)
                if st_ != 'ok':
                    ctx.count('copies:%s:%s:unsupported(%s)' % (cls, how, st_))
                    continue
                lines.append('dup')
                state[1] = dict(state[0])
                objs = [a, b]
                hist = []
                rep = dict(kind='copies', cls=cls, how=how, args=args, pol=pol, pre=pre, ops=hist, points=pts)
                judges = []
                last_ok = [None, None]
                for step_ in range(rng.randint(3, 7)):
                    who = p_ = v_ = None
                    if step_ > 0:
                        who = rng.randrange(2)
                        p_, v_ = gen_op(rng, cls, rng.choice(props), state[who])
                    before = [observe(o_, cls, pts) for o_ in objs]
                    if who is not None:
                        r_ = apply_op(objs[who], cls, p_, v_)
                        if r_ == 'ok' and p_ in state[who]:
                            state[who][p_] = v_
                        hist.append((names[who], p_, v_))
                        if p_ != 'polarization':
                            lines += (['swap'] if who == 1 else []) + ['set %s %s' % (p_, f2b(v_))] + (['swap'] if who == 1 else [])
                        ctx.count('copies:op:%s' % ('ok' if r_ == 'ok' else 'rejected'))
                    for k_, o_ in enumerate(objs):
                        ob = observe(o_, cls, pts)
                        # the object that was NOT assigned to must not change at all
                        if who is not None and k_ != who:
                            d_ = same_obs(before[k_], ob, cls)
                            if d_ is not None:
                                ctx.fail('C18:%s:%s:set(%s)@%s->%s-of-the-%s-changes' % (cls, how, p_, names[who], d_, names[k_]),
                                         '%s: %s made by %s; assigning %s = %r on the %s changed %s of the %s, whose reported parameters did not change'
                                         % (cls, names[1], how, p_, v_, names[who], d_, names[k_]), dict(rep, ops=list(hist)))
                        # each object equals a fresh object built from its own report (and the closed form)
                        fs_, fresh = call(construct, cls, dict(ob['getters']), ob['pol'][0] if cls in PROFILES else None)
                        if fs_ == 'ok':
                            d_ = same_obs(ob, observe(fresh, cls, pts), cls)
                            cf_ = closed_form_violation(cls, ob, pts)
                            ok_now = d_ is None and cf_ is None
                            if not ok_now and last_ok[k_] is not False:
                                what = 'after-%s' % how if who is None else 'set(%s)@%s' % (p_, names[who])
                                ctx.fail('C18:%s:%s:%s->%s-differs-from-fresh(%s)' % (cls, how, what, names[k_], d_ or 'closed-form'),
                                         '%s: the %s (made by %s) after %r: %s differs from an object freshly constructed from the parameters it reports %r'
                                         % (cls, names[k_], how, hist, d_ or cf_, ob['getters']), dict(rep, ops=list(hist)))
                            last_ok[k_] = ok_now
                        # K: the model's value for this object
                        ol = obs_lines(cls, pts, ob['getters'])
                        start = len(lines) + (1 if k_ == 1 else 0)
                        lines += (['swap'] if k_ == 1 else []) + ol + (['swap'] if k_ == 1 else [])
                        judges.append((start, len(ol), ob))
                        record['traces'] += 1

                def judge(o, judges=judges, cls=cls, pts=pts):
                    for start, cnt, ob in judges:
                        why = compare_obs(cls, pts, ob, o[start:start + cnt])
                        if why is not None:
                            return why
                    return None
                st.add(lines, judge, 'copies:' + cls, dict(cls=cls, how=how, args=args, pre=pre, ops=hist))
                ctx.count('copies:%s:%s' % (cls, how))
                ctx.case(key=('copies', cls, how, tuple((w_, p_) for w_, p_, _ in hist)),
                         sample=dict(cls=cls, how=how, args=args, ops=hist) if rng.random() < 0.02 else None)


def consumer_env():
    """plasma slab, uniform profile and the three helpers of the consumer stream"""
    from raysect.optical import World, Point3D, Vector3D
    from raysect.optical.spectrum import Spectrum
    from cherab.core.model.laser import SeldenMatobaThomsonSpectrum, UniformEnergyDensity
    from cherab.tools.plasmas.slab import build_constant_slab_plasma
    ne, te, energy = 8e19, 1e3, 2.5
    world = World()
    plasma = build_constant_slab_plasma(length=1, width=1, height=1, electron_density=ne, electron_temperature=te,
                                        plasma_species=[], parent=world)
    profile = UniformEnergyDensity(energy_density=energy, polarization=Vector3D(0, 1, 0))
    point, obs = Point3D(0.5, 0, 0), Vector3D(1, 0, 0)      # 90° to the pointing (z) and to the polarisation (y)

    def emission(spec):
        model = SeldenMatobaThomsonSpectrum(profile, spec, plasma)
        out = model.emission(point, obs, point, obs, Spectrum(600, 1200, 200))
        return model, np.array(out.samples)

    def expected(model, wl, powers):
        e = Spectrum(600, 1200, 200)
        for w, pw in zip(wl, powers):
            e = model.calculate_spectrum(ne, te, energy * pw, w, 90., 90., e)
        return np.array(e.samples)

    def same(a, b):
        scale = max(float(np.max(np.abs(b))), 1e-300)
        return bool(np.all(np.abs(a - b) <= 1e-9 * np.abs(b) + 1e-12 * scale))

    return emission, expected, same


def consumer_stream(ctx, st, record, table=None):
    """what the scattering model actually consumes from a spectrum (`power_mv`, `wavelengths_mv`, bin count — cdef
    attributes invisible from Python) against the Python-visible attributes and the model:
      emission through SeldenMatobaThomsonSpectrum.emission == Σ_bins calculate_spectrum(E·psd[bin]·Δλ, λ_bin)      (S)
      … == Σ_bins calculate_spectrum(E·power_model[bin], λ_bin) with the Lean model's `powerList`                   (K)
      on a range so narrow that all bins scatter alike, emission == (Σ power = 1)·calculate_spectrum(E, λ)         (S)
    for coarse and fine binnings, lines narrower than a bin, single-bin spectra, very wide / narrow stddev, fresh and
    after setter histories."""
    rng = ctx.rng
    kinds = {k['name']: k['binPsd'] for k in (table or {}).get('classes', [])}
    emission, expected, same = consumer_env()
    for it in range(ctx.n(160, 2500)):
        gauss = it % 4 != 0
        lo = rng.choice([1059.0, 1063.5, rng.uniform(400.0, 1100.0)])
        n = rng.choice([1, 1, 2, 3, 4, 4, 10, 33, rng.randint(1, 80)])
        mode = rng.choice(['coarse', 'fine', 'line-in-one-bin', 'wide', 'degenerate-range'])
        if mode == 'degenerate-range':
            width = rng.choice([1e-3, 4e-4])
        else:
            width = rng.choice([2.0, 0.5, 10.0, rng.uniform(0.05, 40.0)])
        hi = lo + width
        d = width / n
        args = dict(min_wavelength=lo, max_wavelength=hi, bins=float(n))
        cls = 'ConstantSpectrum'
        if gauss:
            cls = 'GaussianSpectrum'
            sd = {'coarse': d * rng.uniform(0.3, 3.0), 'fine': d * rng.uniform(3.0, 30.0), 'line-in-one-bin': d * rng.uniform(0.01, 0.2),
                  'wide': width * rng.uniform(1.0, 20.0), 'degenerate-range': width / rng.uniform(30.0, 60.0)}[mode]
            mean = rng.choice([0.5 * (lo + hi), lo + rng.random() * width, lo + (rng.randrange(n) + rng.choice([0.5, 0.1, 0.93])) * d])
            if mode == 'degenerate-range':
                mean = 0.5 * (lo + hi) + rng.uniform(-0.1, 0.1) * width
            args.update(mean=mean, stddev=sd)
        spec = construct(cls, args)
        hist = []
        if it % 3 == 2 and mode != 'degenerate-range':          # reach the final parameters through the setters
            for p_ in rng.sample(PARAMS[cls], min(3, len(PARAMS[cls]))):
                v = {'bins': float(rng.choice([1, 2, 5, 9])), 'min_wavelength': lo - rng.uniform(0.01, 1.0), 'max_wavelength': hi + rng.uniform(0.01, 1.0),
                     'mean': lo + rng.random() * width, 'stddev': d * rng.choice([0.05, 0.5, 5.0])}[p_]
                if apply_op(spec, cls, p_, v) == 'ok':
                    hist.append((p_, v))
        g = {p_: float(getattr(spec, p_)) for p_ in PARAMS[cls]}
        wl = [float(x) for x in spec.wavelengths]
        psd = [float(x) for x in spec.power_spectral_density]
        dl = float(spec.delta_wavelength)
        model, got = emission(spec)
        rep = dict(kind='consumer', cls=cls, args=args, ops=hist)
        want = expected(model, wl, [p_ * dl for p_ in psd])
        if not same(got, want):
            tot = float(got.sum() / want.sum()) if want.sum() else float('nan')
            ctx.fail('C18:LaserSpectrum:power-read-by-scattering-model!=power_spectral_density*delta',
                     '%s(%r) after %r: SeldenMatobaThomsonSpectrum.emission differs from Σ_bins calculate_spectrum(E·psd[bin]·Δλ, λ_bin) '
                     '(total scattered / expected = %.6f): the per-bin power the model reads is not the binned spectrum' % (cls, g, hist, tot), rep)
        if mode == 'degenerate-range' and (not gauss or (g['min_wavelength'] <= g['mean'] - 9 * g['stddev'] and g['mean'] + 9 * g['stddev'] <= g['max_wavelength'])):
            one = expected(model, [0.5 * (g['min_wavelength'] + g['max_wavelength'])], [1.0])
            r = float(got.sum() / one.sum())
            if abs(r - 1.0) > 1e-4:
                ctx.fail('C18:LaserSpectrum:total-power-seen-by-scattering-model!=1',
                         '%s(%r): all bins scatter alike (range %.1e nm) yet emission / calculate_spectrum(unit power) = %.6f' % (cls, g, width, r), rep)
        # K: the model's per-bin power through the same consumer
        kind_ = 'g' if gauss else ('d' if kinds.get('ConstantSpectrum') == 'constDensity' else 'c')
        line = 'pow %s %s %s %d' % (kind_, f2b(g['min_wavelength']), f2b(g['max_wavelength']), int(g['bins']))
        if gauss:
            line += ' %s %s' % (f2b(g['mean']), f2b(g['stddev']))

        def judge(o, model=model, wl=wl, got=got):
            pm = [b2f(t) for t in o[0].split()]
            if len(pm) != len(wl):
                return 'bin count model=%d impl=%d' % (len(pm), len(wl))
            w2 = expected(model, wl, pm)
            scale = max(float(np.max(np.abs(w2))), 1e-300)
            # the erf of the driver and of libm differ by ≤1.1e-15 per value: absolute room of 1e-14·E·calculate_spectrum
            if not bool(np.all(np.abs(got - w2) <= 1e-8 * np.abs(w2) + 1e-11 * scale)):
                return 'emission through the scattering model differs from the model bin powers %r' % (pm[:6],)
            return None
        st.add([line], judge, 'consumer:' + cls, dict(cls=cls, params=g, ops=hist))
        record['traces'] += 1
        ctx.count('consumer:%s:%s' % (cls, mode))
        ctx.case(key=('consumer', cls, mode, int(g['bins']), f2b(g['min_wavelength']), f2b(g.get('stddev', 0.0))),
                 sample=dict(cls=cls, params=g, ops=hist, mode=mode) if rng.random() < 0.02 else None)


def gen_pol(rng):
    """a polarisation argument: mostly a generic direction; zero vector (ZeroDivisionError), axis vectors, exact
    multiples of one another, and magnitudes whose squared length underflows to 0.0 / overflows to inf"""
    u = rng.random()
    v = [rng.uniform(-1, 1), rng.uniform(-1, 1), rng.uniform(-1, 1)]
    if u < 0.14:
        return [0.0, 0.0, 0.0], 'zero'
    if u < 0.24:
        v = [0.0, 0.0, 0.0]
        v[rng.randrange(3)] = rng.choice([1.0, -1.0, 2.0, 0.5, 3.0])
        return v, 'axis'
    if u < 0.32:
        return [3.0 * (k := rng.choice([1.0, 2.0, 0.5, 7.0])), 4.0 * k, 0.0], 'pythagorean'
    if u < 0.38:
        return [c * 1e-170 for c in v], 'underflow'
    if u < 0.44:
        return [c * 1e160 for c in v], 'overflow'
    if u < 0.50:
        return [c * rng.choice([1e-30, 1e30, 1e-150, 1e150]) for c in v], 'scaled'
    return v, 'generic'


def polar_stream(ctx, st, record):
    """K (round 6): `Vector3D.normalise`, `set_polarization` / `get_polarization` and the constructor's polarisation
    calls (executed at their generated positions, so the *kind* of exception of a doubly-invalid construction is
    compared too) against `normalise` / `setPolarization` / `getPolarization` / `prunCtor` of the model.  After the
    constructor and after every operation of a mixed history (parameter assignments incl. invalid ones,
    set_polarization incl. zero vectors): the outcome kind, get_polarization at two points (bit for bit) and the energy
    density at one point."""
    from raysect.core import Vector3D
    rng = ctx.rng

    def vec_judge(out, impl, what):
        if isinstance(impl, str):
            return None if out == impl else '%s model=%s impl=%s' % (what, out, impl)
        try:
            m = [b2f(t) for t in out.split()]
        except ValueError:
            return '%s model=%s impl=%r' % (what, out, impl)
        if len(m) != 3 or any(f2b(a) != f2b(b) and not (a == b) for a, b in zip(m, impl)):
            return '%s model=%r impl=%r' % (what, m, impl)
        return None

    # pure: Vector3D.normalise
    for _ in range(ctx.n(300, 4000)):
        v, kind = gen_pol(rng)
        stt, r = call(lambda: tuple(Vector3D(*v).normalise()))
        impl = list(r) if stt == 'ok' else stt
        if isinstance(impl, list) and any(c != c for c in impl):
            continue
        st.add(['norm %s %s %s' % tuple(f2b(c) for c in v)],
               lambda o, impl=impl: vec_judge(o[0], impl, 'normalise'), 'polarisation:normalise', dict(vector=v, kind=kind))
        record['traces'] += 1
        ctx.count('polar:normalise:' + kind)
        ctx.case(key=('norm',) + tuple(f2b(c) for c in v), sample=dict(vector=v, result=impl) if rng.random() < 0.01 else None)
    # stateful: constructor + mixed histories
    for cls in PROFILES:
        for _ in range(ctx.n(40, 500)):
            args = specialise(rng, cls, gen_args(rng, cls))
            bad_arg = None
            if rng.random() < 0.15:
                bad_arg = rng.choice([q for q in PARAMS[cls] if q not in UNSIGNED])
                args[bad_arg] = gen_value(rng, cls, bad_arg, valid=False)
            pol, pkind = gen_pol(rng)
            pts = gen_points(rng, cls, args)
            lines = ['pnew %s %s %s %s %s' % (cls, f2b(pol[0]), f2b(pol[1]), f2b(pol[2]),
                                             ' '.join('%s %s' % (k, f2b(v)) for k, v in args.items()))]
            stt, obj = call(construct, cls, args, pol)
            expect = [('res', stt)]
            kinds = ['ctor:' + pkind + (':bad-' + bad_arg if bad_arg else '') + '->' + stt]

            def obs():
                for q in pts:
                    lines.append('pget %s %s %s' % tuple(f2b(c) for c in q))
                    s2, r2 = call(lambda q=q: tuple(obj.get_polarization(*q)))
                    expect.append(('vec', list(r2) if s2 == 'ok' else 'raised:' + s2))
                lines.append('pdens %s %s %s' % tuple(f2b(c) for c in pts[0]))
                expect.append(('dens', _v(obj.get_energy_density, *pts[0])))
            state = dict(args)
            if stt == 'ok':
                obs()
                for _k in range(rng.randint(1, 5)):
                    if rng.random() < 0.5:
                        v, k2 = gen_pol(rng)
                        lines.append('ppol %s %s %s' % tuple(f2b(c) for c in v))
                        s3 = apply_op(obj, cls, 'polarization', v)
                        kinds.append('pol:' + k2)
                    else:
                        q, v = gen_op(rng, cls, rng.choice(PARAMS[cls]), state)
                        lines.append('pset %s %s' % (q, f2b(v)))
                        s3 = apply_op(obj, cls, q, v)
                        if s3 == 'ok':
                            state[q] = v
                        kinds.append('set:' + q + ('' if s3 == 'ok' else '!'))
                    expect.append(('res', s3))
                    obs()

            def judge(outs, expect=list(expect)):
                for o, (kind, e) in zip(outs, expect):
                    if kind == 'res':
                        if o != e:
                            return 'outcome model=%s impl=%s' % (o, e)
                    elif kind == 'vec':
                        why = vec_judge(o, e, 'get_polarization')
                        if why:
                            return why
                    else:
                        try:
                            m = b2f(o)
                        except ValueError:
                            return 'energy_density model=%s impl=%r' % (o, e)
                        if isinstance(e, str) or not close(m, e, 1e-9, 1e-300):
                            return 'energy_density model=%r impl=%r' % (m, e)
                return None
            st.add(lines, judge, 'polarisation:' + cls, dict(cls=cls, args=args, polarization=pol, lines=lines[1:]))
            record['traces'] += len(expect)
            ctx.count('polar:' + kinds[0].split('->')[0].split(':bad-')[0] + '->' + stt)
            ctx.case(key=('polar', cls) + tuple(kinds), sample=dict(cls=cls, ops=kinds) if rng.random() < 0.02 else None)


def integrals(ctx):
    """S: cross-section / volume integrals of the real energy density"""
    rng = ctx.rng
    for it in range(ctx.n(8, 300)):
        for cls in ('ConstantBivariateGaussian', 'GaussianBeamAxisymmetric', 'TrivariateGaussian'):
            args = specialise(rng, cls, gen_args(rng, cls))
            obj = construct(cls, args)
            # also after a short accepted history (parameters changed through setters)
            hist = []
            if it % 2 == 1:
                for p in rng.sample(PARAMS[cls], 3):
                    v = gen_value(rng, cls, p)
                    if apply_op(obj, cls, p, v) == 'ok':
                        hist.append((p, v))
            g = {p: float(getattr(obj, p)) for p in PARAMS[cls]}
            rep = dict(kind='integral', cls=cls, args=args, ops=hist)
            if hist:
                # the integral clause is judged on objects that are consistent with what they report; a stale object is
                # the business of the history oracle (own signature per setter), so fall back to the fresh object here
                pts = gen_points(rng, cls, g)
                fresh = construct(cls, g, tuple(obj.get_polarization(0, 0, 0)))
                if same_obs(observe(obj, cls, pts), observe(fresh, cls, pts), cls) is not None:
                    ctx.count('integral:stale-object-replaced-by-fresh')
                    obj, rep = fresh, dict(kind='integral', cls=cls, args=g, ops=[])
            if cls == 'TrivariateGaussian':
                if it % 3 != 0 and ctx.tier == 'quick':
                    continue
                val = volume_integral(obj, g['mean_z'], g['stddev_x'], g['stddev_y'], g['pulse_length'] * C_LIGHT)
                want = g['pulse_energy']
                if not close(val, want, 1e-8):
                    sig = 'C18:TrivariateGaussian:volume-integral!=pulse_energy'
                    ctx.fail(sig, 'volume integral %r, pulse_energy %r (reported parameters %r)' % (val, want, g), rep)
                ctx.case(key=('int3', json.dumps(g, sort_keys=True)), sample=dict(cls=cls, params=g, integral=val, want=want) if it < 2 else None)
            else:
                want = g['pulse_energy'] / (C_LIGHT * g['pulse_length'])
                if cls == 'ConstantBivariateGaussian':
                    sx, sy, zs = g['stddev_x'], g['stddev_y'], [0.0, rng.uniform(-1, 3)]
                else:
                    sx = sy = g['stddev_waist']
                    zr = 2 * math.pi * sx * sx / (g['laser_wavelength'] * 1e-9)
                    zs = [g['waist_z'], g['waist_z'] + rng.uniform(-3, 3) * zr, g['waist_z'] - 0.7 * zr]
                for z in zs:
                    val = cross_section_integral(obj, z, sx, sy)
                    if not close(val, want, 1e-8):
                        sig = 'C18:%s:cross-section-integral!=E/(c*tau)' % cls
                        ctx.fail(sig, 'z=%r: ∫∫ energy density = %r, pulse_energy/(c*pulse_length) = %r (reported parameters %r)' % (z, val, want, g), dict(rep, z=z))
                    ctx.case(key=('int2', cls, f2b(z), json.dumps(g, sort_keys=True)), sample=dict(cls=cls, params=g, z=z, integral=val, want=want) if it < 1 else None)
            ctx.count('integral:' + cls)


def erf_stream(ctx, st, record):
    rng = ctx.rng
    xs = [rng.uniform(-7, 7) for _ in range(ctx.n(1500, 10000))] + [0.0, 1e-300, -1e-10, 2.5, -2.5, 2.4999999999, 6.5, 6.500001, 10.0, -30.0, 1e-5]

    def judge(o, xs=xs):
        worst = max(abs(b2f(t) - math.erf(x)) for t, x in zip(o, xs))
        ctx.extra['driver_erf_max_abs_error_vs_libm'] = worst
        return None if worst < 5e-15 else 'driver erf differs from libm by %r' % worst
    st.add(['erf ' + f2b(x) for x in xs], judge, 'erf', dict(n=len(xs)))


# ---------------------------------------------------------------------------------------- table <-> S link
def table_uncovered(table):
    """python twin of coveredB / atomicB / getterOwnB, only used to *seed* the search and to decide whether a broken
    table obligation is explained by the failing inputs that were found"""
    exp = dict(stale=[], atomic=[], getters=[])
    for k in table['classes']:
        for s in k['setters']:
            writes_read = any(f in k['rebuildReads'] for f, _, _ in s['writes'])
            has_rebuild = any(r in ('functionChanged', 'updateCache', 'setEnergyFn') for r in s['refresh'])
            if writes_read and not has_rebuild:
                exp['stale'].append((k['name'], s['prop']))
            for f, rhs, _ in s['writes']:
                if f in k['rebuildPositive'] and not (s['guard'] == 'positive' and s['guardFirst'] and rhs in ('value', 'timesC')):
                    exp['atomic'].append((k['name'], s['prop']))
            if not s['guardFirst']:
                exp['atomic'].append((k['name'], s['prop']))
        for g in k['getters']:
            want = '_' + g['name'] if g['isProperty'] else {'get_min_wavelenth': '_min_wavelength', 'get_max_wavelenth': '_max_wavelength',
                                                            'get_spectral_bins': '_bins', 'get_delta_wavelength': '_delta_wavelength'}.get(g['name'])
            if g['field'] != want:
                exp['getters'].append((k['name'], g['name']))
    return exp


def targeted(ctx, st, record, exp):
    """the constructive counter-examples of the failing table obligations, replayed on the real classes:
    uncovered_setter_goes_stale (assign an accepted value different from the current one), a non-positive value for a
    non-atomic setter"""
    rng = ctx.rng
    for cls, p in exp['stale']:
        for _ in range(3):
            args = gen_args(rng, cls)
            v = gen_value(rng, cls, p)
            if v == args.get(p):
                v = v * 1.5
            run_history(ctx, st, cls, args, [(p, v)], gen_points(rng, cls, args), record)
        ctx.count('targeted:stale:%s.%s' % (cls, p))
    for cls, p in exp['atomic']:
        args = gen_args(rng, cls)
        run_history(ctx, st, cls, args, [(p, -1.0)], gen_points(rng, cls, args), record)
        run_history(ctx, st, cls, args, [(p, 0.0), ('pulse_energy', 2.0)] if 'pulse_energy' in PARAMS[cls] else [(p, 0.0)], gen_points(rng, cls, args), record)
        ctx.count('targeted:atomic:%s.%s' % (cls, p))


MODULES = [
    ('Cherab.Props.C18', 'Cherab/Audit/C18.lean', None),
    ('Cherab.Props.C18Table', 'Cherab/Audit/C18Table.lean', None),
    ('Cherab.Props.C18TableProfiles', 'Cherab/Audit/C18TableProfiles.lean', 'stale-profiles'),
    ('Cherab.Props.C18TableSpectra', 'Cherab/Audit/C18TableSpectra.lean', 'stale-spectra'),
    ('Cherab.Props.C18TableGetters', 'Cherab/Audit/C18TableGetters.lean', 'getters'),
    ('Cherab.Props.C18TableAtomic', 'Cherab/Audit/C18TableAtomic.lean', 'atomic'),
    ('Cherab.Props.C18TableFresh', 'Cherab/Audit/C18TableFresh.lean', 'any'),
    ('Cherab.Props.C18Polar', 'Cherab/Audit/C18Polar.lean', None),
]


def explain_broken(ctx, exp):
    """a broken table obligation is *explained* when every table entry that makes it fail has been re-found as a
    failing input on the real implementation and all those failing inputs are open known findings"""
    sigs_known = set(k['signature'] for k in ctx.known_hits)
    sigs_new = set(f['signature'] for f in ctx.failing)
    allsig = sigs_known | sigs_new

    def found(kind):
        need = []
        if kind in ('stale-profiles', 'any'):
            need += [('C18:%s:set(%s)->stale(' % (c, p)) for c, p in exp['stale'] if c in PROFILES]
        if kind in ('stale-spectra', 'any'):
            need += [('C18:%s:set(%s)->stale(' % (c, p)) for c, p in exp['stale'] if c in SPECTRA]
        if kind in ('getters', ):
            need += [('C18:LaserSpectrum:%s->' % g) for c, g in exp['getters']]
        if kind in ('atomic', 'any'):
            need += [('C18:%s:set(%s)->re' % (c, p)) for c, p in exp['atomic']]
        if not need:
            return False
        ok = True
        for pre in need:
            hits = [s for s in allsig if s.startswith(pre)]
            if not hits or not all(h in sigs_known for h in hits):
                ok = False
        return ok
    kinds = {m: k for m, _, k in MODULES}
    for b in ctx.broken:
        if b['kind'] == 'theorem' and kinds.get(b['name']) and found(kinds[b['name']]):
            b['explained_by_known'] = True


def t_phase(ctx):
    """T: same bookkeeping as Ctx.lean_check, but one `lake build` for all seven theorem modules (a failing module does
    not hide the others: lake keeps going and lists the failed targets) and one combined axiom audit of the modules
    that built.  Each `#print axioms` line of the per-module audit files is one obligation."""
    from harness.vlib import lean, core
    from harness.vlib.util import LEAN
    hits = lean.grep_forbidden()
    if hits:
        raise core.InfraError('forbidden token in Lean sources: ' + '; '.join(hits[:5]))
    mods = [m for m, _, _ in MODULES]
    ctx.checker_cmd = 'cd %s/lean && lake build %s && for f in %s; do lake env lean $f; done' % (
        VERIF, ' '.join(mods), ' '.join(a for _, a, _ in MODULES))
    ok, out = lean.lake_build(mods)
    bad = {}
    if not ok:
        failed = set(re.findall(r'^- (Cherab\.[\w\.]+)\s*$', out, flags=re.M))
        for m in mods:
            if m in failed:
                ol = out.splitlines()
                errs = []
                for i, l in enumerate(ol):
                    if 'error' in l and m.replace('.', '/') + '.lean' in l:
                        errs += ol[i:i + 4]
                bad[m] = '\n'.join(errs)[-2000:] or 'build failed'
        # modules that import a failed module are never started by lake: propagate along the import graph
        changed = True
        while changed:
            changed = False
            for m in mods:
                if m in bad:
                    continue
                src = open(os.path.join(LEAN, m.replace('.', '/') + '.lean')).read()
                dep = [d for d in re.findall(r'^import\s+(\S+)', src, flags=re.M) if d in bad]
                if dep:
                    bad[m] = 'imports ' + ', '.join(dep) + ' which does not build'
                    changed = True
        if not bad:               # could not attribute: fall back to building one by one
            for m in mods:
                o2, t2 = lean.lake_build([m])
                if not o2:
                    bad[m] = t2[-2000:]
    for m, detail in bad.items():
        ctx.broken.append(dict(kind='theorem', name=m, detail=detail))
        ctx.log('LEAN BUILD FAILED', m)
    good = [(m, a) for m, a, _ in MODULES if m not in bad]
    work = os.path.join(VERIF, '.work')
    os.makedirs(work, exist_ok=True)
    comb = os.path.join(work, 'C18_audit_%d.lean' % os.getpid())
    lines = ['import %s' % m for m, _ in good] + ['import Cherab.Props.C18Real',
             'open Cherab.Props.C18 Cherab.Props.C18Real Cherab.Props.C18Table']
    for m, a in good:
        lines += ['#print axioms ' + t for t in lean.audit_targets(a)]
    open(comb, 'w').write('\n'.join(lines) + '\n')
    try:
        aok, ax, raw = lean.audit(comb)
    finally:
        os.remove(comb)
    if ctx.tier == 'thorough' and good:
        # independent re-check of the compiled theorem modules by the external kernel checker
        import subprocess
        r = subprocess.run(['lake', 'env', 'leanchecker'] + [m for m, _ in good] + ['Cherab.Props.C18Real'], cwd=LEAN,
                           stdout=subprocess.PIPE, stderr=subprocess.STDOUT, text=True, timeout=1800)
        ctx.extra['leanchecker'] = dict(modules=[m for m, _ in good] + ['Cherab.Props.C18Real'], returncode=r.returncode)
        if r.returncode != 0:
            ctx.broken.append(dict(kind='theorem', name='leanchecker', detail=r.stdout[-1500:]))
    for m, a, _ in MODULES:
        for t in lean.audit_targets(a):
            full = [k for k in ax if k == t or k.endswith('.' + t)]
            if m not in bad and full:
                extra = set(ax[full[0]]) - lean.ALLOWED_AXIOMS
                if extra:
                    raise core.InfraError('theorem %s depends on non-standard axioms %s' % (t, sorted(extra)))
                ctx.obligations.append((t, True, ','.join(ax[full[0]]) or 'no axioms'))
            else:
                ctx.obligations.append((t, False, 'not checked'))
                if m not in bad:
                    ctx.broken.append(dict(kind='theorem', name=t, detail=raw[-1500:]))


# ------------------------------------------------------------------------------------------------- entry
def run_corpus(ctx):
    d = os.path.join(VERIF, 'corpus', 'C18')
    if not os.path.isdir(d):
        return
    for fn in sorted(os.listdir(d)):
        if fn.endswith('.json'):
            r = json.load(open(os.path.join(d, fn)))
            replay_one(ctx, r.get('replay', r), r.get('signature'))
            ctx.count('corpus')


def replay_one(ctx, rep, signature=None):
    """re-execute a replay dict against the real code with the direct oracles; returns a short verdict string"""
    kind = rep.get('kind')
    n0 = len(ctx.failing) + len(ctx.known_hits)
    if kind in ('history', 'integral') and kind == 'history':
        st = Stream()
        rec = dict(traces=0)
        run_history(ctx, st, rep['cls'], rep['args'], [tuple(o) for o in rep['ops']], [tuple(p) for p in rep['points']], rec, rep.get('pol'))
    elif kind == 'integral':
        obj = construct(rep['cls'], rep['args'])
        for p, v in rep.get('ops', []):
            apply_op(obj, rep['cls'], p, v)
        g = {p: float(getattr(obj, p)) for p in PARAMS[rep['cls']]}
        if rep['cls'] == 'TrivariateGaussian':
            val, want = volume_integral(obj, g['mean_z'], g['stddev_x'], g['stddev_y'], g['pulse_length'] * C_LIGHT), g['pulse_energy']
        else:
            sx = g.get('stddev_x', g.get('stddev_waist'))
            sy = g.get('stddev_y', g.get('stddev_waist'))
            val, want = cross_section_integral(obj, rep.get('z', 0.0), sx, sy), g['pulse_energy'] / (C_LIGHT * g['pulse_length'])
        if not close(val, want, 1e-8):
            ctx.fail(signature or 'C18:%s:integral' % rep['cls'], 'integral %r, expected %r' % (val, want), rep)
    elif kind == 'spectrum_sum':
        a = rep['args']
        s = classes()[rep['cls']](a['min_wavelength'], a['max_wavelength'], int(a['bins']))
        psd, d = [float(x) for x in s.power_spectral_density], float(s.delta_wavelength)
        tot = sum(p * d for p in psd)
        if abs(tot - 1.0) > 1e-9:
            ctx.fail(signature or 'C18:ConstantSpectrum:edge-bin-density', '%s(%r, %r, %d): bin powers sum to %r, psd = %r' % (rep['cls'], a['min_wavelength'], a['max_wavelength'], int(a['bins']), tot, psd[:4]), rep)
    elif kind == 'segments':
        from cherab.core.model.laser.profile import generate_segmented_cylinder
        stt, geom = call(generate_segmented_cylinder, rep['radius'], rep['length'])
        segs = [(float(g.transform[2, 3]), float(g.height), float(g.radius), True) for g in geom] if stt == 'ok' else stt
        why = tiling_violation(segs, rep['radius'], rep['length'])
        if why:
            ctx.fail(signature or 'C18:generate_segmented_cylinder:tiling', why, rep)
    elif kind == 'attached':
        bad = attached_play([tuple(x) for x in rep['spec']], tuple(rep.get('init', [0])), [tuple(o) for o in rep['ops']])
        if bad is not None:
            ctx.fail(signature or 'C18:Laser:attached->%s' % bad[1], bad[2], rep)
    elif kind == 'copies':
        import copy
        import pickle
        mk = {'copy': copy.copy, 'deepcopy': copy.deepcopy, 'pickle': lambda o_: pickle.loads(pickle.dumps(o_))}[rep['how']]
        cls, pts = rep['cls'], [tuple(p_) for p_ in rep['points']]
        a = construct(cls, rep['args'], rep.get('pol'))
        for p_, v_ in rep.get('pre', []):
            apply_op(a, cls, p_, v_)
        objs = {'original': a, 'copy': mk(a)}
        for who, p_, v_ in rep['ops']:
            other = 'copy' if who == 'original' else 'original'
            before = observe(objs[other], cls, pts)
            apply_op(objs[who], cls, p_, v_)
            d_ = same_obs(before, observe(objs[other], cls, pts), cls)
            if d_ is not None:
                ctx.fail(signature or 'C18:%s:%s:set(%s)@%s->%s-of-the-%s-changes' % (cls, rep['how'], p_, who, d_, other),
                         'assigning %s = %r on the %s changed %s of the %s' % (p_, v_, who, d_, other), rep)
        for nm, o_ in objs.items():
            ob = observe(o_, cls, pts)
            fs_, fresh = call(construct, cls, dict(ob['getters']), ob['pol'][0] if cls in PROFILES else None)
            if fs_ == 'ok' and same_obs(ob, observe(fresh, cls, pts), cls) is not None:
                ctx.fail(signature or 'C18:%s:%s->%s-differs-from-fresh' % (cls, rep['how'], nm), 'the %s differs from a fresh object' % nm, rep)
    elif kind == 'consumer':
        emission, expected, same = consumer_env()
        spec = construct(rep['cls'], rep['args'])
        for p_, v_ in rep.get('ops', []):
            apply_op(spec, rep['cls'], p_, v_)
        model, got = emission(spec)
        dl = float(spec.delta_wavelength)
        want = expected(model, [float(x) for x in spec.wavelengths], [float(x) * dl for x in spec.power_spectral_density])
        if not same(got, want):
            ctx.fail(signature or 'C18:LaserSpectrum:power-read-by-scattering-model!=power_spectral_density*delta',
                     'emission / expected = %.6f' % float(got.sum() / want.sum()), rep)
    elif kind == 'geometry_identity':
        pr = construct(rep['cls'], rep['args'])
        if set(map(id, pr.generate_geometry())) & set(map(id, pr.generate_geometry())):
            ctx.fail(signature or 'C18:generate_geometry:returns-the-same-primitive-objects-twice', 'same Cylinder objects returned twice', rep)
    elif kind == 'spectrum_bins':
        pass        # covered by the seeded stream; parameters are in the replay for manual inspection
    return 'still fails' if len(ctx.failing) + len(ctx.known_hits) > n0 else 'passes now'


def run(ctx):
    from harness.translators import laser_edges
    ctx.rule = ('for each of the six classes: every single setter, every ordered pair (quick) / triple (thorough) of setters '
                '(incl. set_polarization), and random longer histories, each from random constructor arguments, ~12 % of the assigned '
                'values deliberately invalid; after the constructor and after every assignment the object is observed (energy density at '
                '2 points, polarisation, generated segments, every getter; wavelengths, psd, delta, get_* and spectrum(x) for spectra). '
                'A history is distinct by (class, setter sequence, which values were invalid); pure streams (segments incl. dyadic exact '
                'cases and L<2r, constant/Gaussian binnings, quadrature integrals) are distinct by their argument bit patterns. '
                'non-trivial = the constructor was accepted and at least one observation was compared')
    ctx.trusted += ['translator harness/translators/laser_edges.py (regex/indent scanner of 5 .pyx files) — its table is *interpreted* by the Lean model and '
                    'compared with the running classes on every history, so a mis-read shows up as a disagreement',
                    'exp, sqrt, erf, Python float // are parameters of the model; the driver uses libm exp/sqrt, Float.floor and its own erf (compared with libm each run)',
                    'Mathlib: integral_gaussian, integral_prod_mul, interval-integral change of variables (C18Real.lean); erf defined as 2/√π ∫₀ˣ e^{-t²}',
                    'raysect Constant3D / ConstantVector3D / MultiplyScalar3D (normalisation * distribution) and Cylinder/translate are not modelled beyond value*function and (z0, height, radius)',
                    'quadrature oracles: tensor Gauss–Legendre (160² / 72³ nodes) on a shape-agnostic extent; composite 16-point rule for bin integrals']
    ctx.assumptions += ['finite positive widths/energies; bins passed as Python ints; polarisation: direct fresh-object oracle (S) and, since round 6, the Lean normalise / setPolarization / prunCtor (K stream polarisation, bit-exact; NaN components skipped)',
                        'float rounding is not modelled by the theorems: the constant-spectrum sum, the tiling and the segment count are monitored directly on the implementation']
    # 1. translator
    table, changed = laser_edges.generate()
    ctx.extra['table_regenerated'] = bool(changed)
    tset = {k['name']: sorted(s['prop'] for s in k['setters']) for k in table['classes']}
    for cls in PROFILES + SPECTRA:
        if tset.get(cls) != sorted(PARAMS[cls]):
            ctx.broke('correspondence', 'setter list of ' + cls, dict(translator=tset.get(cls), harness=sorted(PARAMS[cls])))
    # 2. T
    t_phase(ctx)
    # 3./4. K and S
    run_corpus(ctx)
    st = Stream()
    record = dict(traces=0)
    exp = table_uncovered(table)
    sp_, dflt = special_values(table)
    SPECIALS.clear()
    SPECIALS.update(sp_)
    ctx.extra['special_constructor_values'] = sp_
    ctx.extra['table_entries_failing_their_obligation'] = {k: ['%s.%s' % e for e in v] for k, v in exp.items()}
    erf_stream(ctx, st, record)
    import traceback
    for name, fn in (('targeted', lambda: targeted(ctx, st, record, exp)), ('defaults', lambda: defaults_stream(ctx, st, record, dflt)),
                     ('histories', lambda: histories(ctx, st, record)), ('attached', lambda: attached_stream(ctx, st, record)), ('consumer', lambda: consumer_stream(ctx, st, record, table)), ('copies', lambda: copies_stream(ctx, st, record)), ('polarisation', lambda: polar_stream(ctx, st, record)),
                     ('segments', lambda: segments_stream(ctx, st, record)), ('spectra', lambda: spectra_stream(ctx, st, record, table)),
                     ('integrals', lambda: integrals(ctx))):
        try:
            fn()
        except Exception as e:      # the implementation raised where the harness expects it to work: an observation, not an infrastructure error
            last = traceback.extract_tb(e.__traceback__)[-1].filename
            if last.startswith(os.path.join(VERIF, 'harness')):
                raise               # … unless the exception was born in the harness itself: that is our bug (exit 2)
            ctx.broke('correspondence', 'C18 stream %s: the implementation raised unexpectedly' % name, traceback.format_exc()[-1500:])
    outs = ctx.driver(st.lines)
    ctx.traces = record['traces']
    for start, cnt, fn, name, detail in st.judges:
        why = fn(outs[start:start + cnt])
        if why is not None:
            ctx.disagreements += 1
            ctx.count('disagreement:' + name)
            if ctx.disagreements <= 5:
                ctx.broke('correspondence', 'C18 stream ' + name, dict(why=why, input=detail))
    explain_broken(ctx, exp)


def replay(ctx, path):
    r = json.load(open(path))
    print(json.dumps(r, indent=1, default=str)[:3000])
    rep = r.get('replay')
    if rep:
        print('REPLAY verdict:', replay_one(ctx, rep, r.get('signature')))
    else:
        print('no failing input in this file (broken obligation only); re-running the whole check')
        run(ctx)
    return ctx.finish()
