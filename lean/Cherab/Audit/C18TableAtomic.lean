import Cherab.Props.C18TableAtomic
open Cherab.Props.C18Table
#print axioms rejected_assignments_atomic
