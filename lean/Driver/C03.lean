import Cherab.Drv.Proto
open Cherab.Drv

/-- C03 driver: not yet implemented (echo) -/
def main : IO UInt32 := do
  loop (stateless fun ts => " ".intercalate ts) (← IO.getStdin) (← IO.getStdout) ()
  return 0
