"""C15 translator: Python `ast` of the observer-group classes  ->  lean/Cherab/Gen/GroupTable.lean

What it does (purely syntactic, nothing is imported from cherab):

1. parses the seven anchored files and collects every class that (transitively) derives from `Observer0DGroup`, plus
   `BolometerCamera`;
2. *simulates the execution of each class body*: `@property def X` binds `X` to a property object (fget=X, fset=None);
   `@T.setter def F` binds **F** to a property object made of the getter currently bound to `T` and the new setter
   (this is what CPython's `property.setter` + the `def` statement do - when `F != T`, `T` keeps no setter and `F` shadows
   whatever was inherited under that name); a plain `def`/assignment overwrites the name;
3. resolves every name through the MRO (all classes here are single-inheritance) -> one descriptor per
   (class, public name) whose getter reads the member container or that has a setter;
4. classifies each getter / setter body against the recognised shapes (see `Cherab.Groups.Descriptor`); anything else
   becomes `unrecognised` with a CRC of its `ast.dump`, which makes `table_wf` fail and the direct search decide.

`scan()` returns a JSON-able dict (also used by the harness to enumerate classes and attributes), `render()` the Lean text.
"""
import ast
import os
import zlib

FILES = ['cherab/tools/observers/group/base.py', 'cherab/tools/observers/group/sightline.py',
         'cherab/tools/observers/group/fibreoptic.py', 'cherab/tools/observers/group/pixel.py',
         'cherab/tools/observers/group/targettedpixel.py', 'cherab/tools/observers/group/spectroscopic.py',
         'cherab/tools/observers/bolometry.py']
ROOTS = {'Observer0DGroup': ('observer0D', '_observers'), 'BolometerCamera': ('bolometer', '_foil_detectors')}
HAND_MODELLED = ('__getitem__', '__len__', 'observe', 'add_observer', 'add_foil_detector', 'add_sight_line', '__init__')
KINDS = {'list': 'list', 'tuple': 'tuple', 'ndarray': 'ndarray'}
ERRS = {'ValueError': 'valueError', 'TypeError': 'typeError', 'AttributeError': 'attributeError', 'IndexError': 'indexError'}


def crc(node):
    if isinstance(node, list):
        s = ';'.join(ast.dump(n) for n in node)
    else:
        s = ast.dump(node)
    return zlib.crc32(s.encode())


def strip_doc(body):
    return [s for s in body if not (isinstance(s, ast.Expr) and isinstance(s.value, ast.Constant) and isinstance(s.value.value, str))]


def is_self_attr(node, names):
    return isinstance(node, ast.Attribute) and isinstance(node.value, ast.Name) and node.value.id == 'self' and node.attr in names


def raise_kind(stmt):
    """`raise E(...)` -> Lean Err name, else None"""
    if isinstance(stmt, ast.Raise) and stmt.exc is not None:
        f = stmt.exc.func if isinstance(stmt.exc, ast.Call) else stmt.exc
        if isinstance(f, ast.Name):
            return ERRS.get(f.id, 'other')
    return None


def isinstance_call(node, var):
    """`isinstance(var, K)` -> list of class names, else None"""
    if isinstance(node, ast.Call) and isinstance(node.func, ast.Name) and node.func.id == 'isinstance' and len(node.args) == 2 \
            and isinstance(node.args[0], ast.Name) and node.args[0].id == var:
        k = node.args[1]
        if isinstance(k, ast.Tuple) and all(isinstance(e, ast.Name) for e in k.elts):
            return [e.id for e in k.elts]
        if isinstance(k, ast.Name):
            return [k.id]
        if is_self_attr(k, ('_OBSERVER_TYPE',)):
            return ['self._OBSERVER_TYPE']
    return None


def seq_kinds(names):
    if names is None or not names or any(n not in KINDS for n in names):
        return None
    return [KINDS[n] for n in names]


def not_(node):
    return node.operand if isinstance(node, ast.UnaryOp) and isinstance(node.op, ast.Not) else None


# ---------------------------------------------------------------------------------------------------------------
def analyse_getter(fn, container):
    body = strip_doc(fn.body)
    if len(body) == 1 and isinstance(body[0], ast.Return) and body[0].value is not None:
        v = body[0].value
        if isinstance(v, ast.ListComp) and len(v.generators) == 1:
            g = v.generators[0]
            if isinstance(v.elt, ast.Attribute) and isinstance(v.elt.value, ast.Name) and isinstance(g.target, ast.Name) \
                    and g.target.id == v.elt.value.id and not g.ifs and not g.is_async and is_self_attr(g.iter, (container,)):
                return dict(kind='each', attr=v.elt.attr)
        if is_self_attr(v, (container,)):
            return dict(kind='memberList')
        if isinstance(v, ast.Call) and not v.args and not v.keywords and isinstance(v.func, ast.Attribute) and v.func.attr == 'copy' \
                and is_self_attr(v.func.value, (container,)):
            return dict(kind='memberList')
    return dict(kind='unrecognised', hash=crc(fn.body))


def reads_container(fn, container):
    return any(is_self_attr(n, (container,)) for n in ast.walk(fn))


def member_assign(stmt, obj, val):
    """`obj.A = val` -> A"""
    if isinstance(stmt, ast.Assign) and len(stmt.targets) == 1:
        t = stmt.targets[0]
        if isinstance(t, ast.Attribute) and isinstance(t.value, ast.Name) and t.value.id == obj \
                and isinstance(stmt.value, ast.Name) and stmt.value.id == val:
            return t.attr
    return None


def zip_loop(stmts, container, var):
    """[`for o, v in zip(self.<container>, var): <assign | guarded assign>`] -> (attr, engineCheck, elemErr)"""
    if len(stmts) != 1 or not isinstance(stmts[0], ast.For) or stmts[0].orelse:
        return None
    f = stmts[0]
    it = f.iter
    if not (isinstance(it, ast.Call) and isinstance(it.func, ast.Name) and it.func.id == 'zip' and len(it.args) == 2
            and is_self_attr(it.args[0], (container,)) and isinstance(it.args[1], ast.Name) and it.args[1].id == var):
        return None
    if not (isinstance(f.target, ast.Tuple) and len(f.target.elts) == 2 and all(isinstance(e, ast.Name) for e in f.target.elts)):
        return None
    o, v = f.target.elts[0].id, f.target.elts[1].id
    if len(f.body) != 1:
        return None
    b = f.body[0]
    a = member_assign(b, o, v)
    if a is not None:
        return a, False, 'typeError'
    if isinstance(b, ast.If) and isinstance_call(b.test, v) == ['RenderEngine'] and len(b.body) == 1 and len(b.orelse) == 1:
        a = member_assign(b.body[0], o, v)
        e = raise_kind(b.orelse[0])
        if a is not None and e is not None:
            return a, True, e
    return None


def all_loop(stmts, container, var):
    """[`[if not isinstance(var, RenderEngine): raise E]`, `for o in self.<container>: o.A = var`] -> Else"""
    chk, err = False, 'typeError'
    if len(stmts) == 2 and isinstance(stmts[0], ast.If) and not stmts[0].orelse and len(stmts[0].body) == 1:
        t = not_(stmts[0].test)
        if t is not None and isinstance_call(t, var) == ['RenderEngine'] and raise_kind(stmts[0].body[0]):
            chk, err = True, raise_kind(stmts[0].body[0])
            stmts = stmts[1:]
    if len(stmts) == 1 and isinstance(stmts[0], ast.For) and not stmts[0].orelse and is_self_attr(stmts[0].iter, (container,)) \
            and isinstance(stmts[0].target, ast.Name) and len(stmts[0].body) == 1:
        a = member_assign(stmts[0].body[0], stmts[0].target.id, var)
        if a is not None:
            return dict(kind='broadcast', attr=a, engineCheck=chk, err=err)
    if len(stmts) == 1 and raise_kind(stmts[0]):
        return dict(kind='raise', err=raise_kind(stmts[0]))
    return None


def len_test(node, container, var):
    """`len(var) == len(self.<container>)`"""
    def is_len(n, what):
        return isinstance(n, ast.Call) and isinstance(n.func, ast.Name) and n.func.id == 'len' and len(n.args) == 1 and what(n.args[0])
    if isinstance(node, ast.Compare) and len(node.ops) == 1 and isinstance(node.ops[0], ast.Eq):
        l, r = node.left, node.comparators[0]
        isv = lambda n: isinstance(n, ast.Name) and n.id == var
        isc = lambda n: is_self_attr(n, (container,))
        return (is_len(l, isv) and is_len(r, isc)) or (is_len(l, isc) and is_len(r, isv))
    return False


def seq_part(stmts, container, var):
    """element-wise part: `if len(..) == len(..): <zip loop> else: raise E` or a bare zip loop"""
    if len(stmts) == 1 and isinstance(stmts[0], ast.If) and len_test(stmts[0].test, container, var):
        z = zip_loop(stmts[0].body, container, var)
        e = raise_kind(stmts[0].orelse[0]) if len(stmts[0].orelse) == 1 else None
        if z and e:
            return dict(lenCheck=True, lenErr=e, seqAttr=z[0], elemEngineCheck=z[1], elemErr=z[2])
        return None
    z = zip_loop(stmts, container, var)
    if z:
        return dict(lenCheck=False, lenErr='valueError', seqAttr=z[0], elemEngineCheck=z[1], elemErr=z[2])
    return None


def all_items_test(node, var):
    """`all(isinstance(v, K) for v in var)` -> kinds"""
    if isinstance(node, ast.Call) and isinstance(node.func, ast.Name) and node.func.id == 'all' and len(node.args) == 1 \
            and isinstance(node.args[0], ast.GeneratorExp) and len(node.args[0].generators) == 1:
        g = node.args[0].generators[0]
        if isinstance(g.target, ast.Name) and isinstance(g.iter, ast.Name) and g.iter.id == var and not g.ifs:
            return isinstance_call(node.args[0].elt, g.target.id)
    return None


def analyse_setter(fn, dec_target, container):
    base = dict(fnName=fn.name, decTarget=dec_target)
    unrec = dict(kind='unrecognised', hash=crc(fn.body), **base)
    if len(fn.args.args) != 2:
        return unrec
    var = fn.args.args[1].arg
    body = strip_doc(fn.body)
    # alias: self.T = value
    if len(body) == 1 and isinstance(body[0], ast.Assign) and len(body[0].targets) == 1 and isinstance(body[0].targets[0], ast.Attribute) \
            and isinstance(body[0].targets[0].value, ast.Name) and body[0].targets[0].value.id == 'self' \
            and isinstance(body[0].value, ast.Name) and body[0].value.id == var and not body[0].targets[0].attr.startswith('_'):
        return dict(kind='alias', target=body[0].targets[0].attr, **base)
    # broadcast family
    if len(body) == 1 and isinstance(body[0], ast.If):
        top = body[0]
        if len_test(top.test, container, var):                      # pipelines
            sp = seq_part(body, container, var)
            if sp:
                return dict(kind='broadcast', test=dict(kind='sized'), orelse=dict(kind='absent'), **sp, **base)
            return unrec
        kinds = seq_kinds(isinstance_call(top.test, var))
        test = dict(kind='isinst', kinds=kinds) if kinds else None
        if test is None:
            kinds = seq_kinds(all_items_test(top.test, var))
            test = dict(kind='allItems', kinds=kinds) if kinds else None
        if test is not None:
            sp = seq_part(top.body, container, var)
            el = all_loop(top.orelse, container, var)
            if sp and el:
                return dict(kind='broadcast', test=test, orelse=el, **sp, **base)
        return unrec
    # member list
    m = analyse_member_setter(body, container, var)
    if m:
        return dict(kind='members', **m, **base)
    return unrec


def analyse_member_setter(body, container, var):
    if len(body) < 3 or not isinstance(body[0], ast.If) or body[0].orelse or len(body[0].body) != 1:
        return None
    t = not_(body[0].test)
    kinds = seq_kinds(isinstance_call(t, var)) if t is not None else None
    kerr = raise_kind(body[0].body[0])
    if not kinds or not kerr:
        return None
    rest = body[1:]
    last = rest[-1]
    # final store: self.<container> = tuple(var) | var
    if not (isinstance(last, ast.Assign) and len(last.targets) == 1 and is_self_attr(last.targets[0], (container,))):
        return None
    lv = last.value
    if not ((isinstance(lv, ast.Name) and lv.id == var) or
            (isinstance(lv, ast.Call) and isinstance(lv.func, ast.Name) and lv.func.id == 'tuple' and len(lv.args) == 1
             and isinstance(lv.args[0], ast.Name) and lv.args[0].id == var)):
        return None
    rest = rest[:-1]

    def reparent(stmt, o):
        return isinstance(stmt, ast.Assign) and len(stmt.targets) == 1 and isinstance(stmt.targets[0], ast.Attribute) \
            and stmt.targets[0].attr == 'parent' and isinstance(stmt.targets[0].value, ast.Name) and stmt.targets[0].value.id == o \
            and isinstance(stmt.value, ast.Name) and stmt.value.id == 'self'

    # atomic: if not all(isinstance(v, T) for v in value): raise E ; for o in value: o.parent = self
    if len(rest) == 2 and isinstance(rest[0], ast.If) and not rest[0].orelse and len(rest[0].body) == 1 and isinstance(rest[1], ast.For):
        t = not_(rest[0].test)
        types = all_items_test(t, var) if t is not None else None
        e = raise_kind(rest[0].body[0])
        f = rest[1]
        if types and e and isinstance(f.iter, ast.Name) and f.iter.id == var and isinstance(f.target, ast.Name) \
                and len(f.body) == 1 and reparent(f.body[0], f.target.id) and not f.orelse:
            return dict(kinds=kinds, kindErr=kerr, elemErr=e, atomic=True, types=types)
    # loop-checked without copy: for o in value: if not isinstance(o, T): raise E; o.parent = self
    if len(rest) == 1 and isinstance(rest[0], ast.For) and not rest[0].orelse:
        f = rest[0]
        if isinstance(f.iter, ast.Name) and f.iter.id == var and isinstance(f.target, ast.Name) and len(f.body) == 2 \
                and isinstance(f.body[0], ast.If) and not f.body[0].orelse and len(f.body[0].body) == 1:
            o = f.target.id
            t = not_(f.body[0].test)
            types = isinstance_call(t, o) if t is not None else None
            e = raise_kind(f.body[0].body[0])
            if types and e and reparent(f.body[1], o):
                return dict(kinds=kinds, kindErr=kerr, elemErr=e, atomic=False, types=types)
    # atomic, camera form: value = value.copy(); for d in value: if not isinstance(d, T): raise E
    #                      for d in value: [slit bookkeeping]; d.parent = self
    if len(rest) == 3 and isinstance(rest[0], ast.Assign) and isinstance(rest[1], ast.For) and isinstance(rest[2], ast.For) \
            and not rest[1].orelse and not rest[2].orelse:
        cp, chk, adopt = rest
        okcopy = len(cp.targets) == 1 and isinstance(cp.targets[0], ast.Name) and cp.targets[0].id == var and isinstance(cp.value, ast.Call) \
            and isinstance(cp.value.func, ast.Attribute) and cp.value.func.attr == 'copy' and isinstance(cp.value.func.value, ast.Name) \
            and cp.value.func.value.id == var
        if okcopy and all(isinstance(f.iter, ast.Name) and f.iter.id == var and isinstance(f.target, ast.Name) for f in (chk, adopt)) \
                and len(chk.body) == 1 and isinstance(chk.body[0], ast.If) and not chk.body[0].orelse and len(chk.body[0].body) == 1 and adopt.body:
            t = not_(chk.body[0].test)
            types = isinstance_call(t, chk.target.id) if t is not None else None
            e = raise_kind(chk.body[0].body[0])
            o = adopt.target.id
            if types and e and reparent(adopt.body[-1], o) and all(_slit_bookkeeping(st, o) for st in adopt.body[:-1]):
                return dict(kinds=kinds, kindErr=kerr, elemErr=e, atomic=True, types=types)
    # loop-checked: value = value.copy(); for d in value: if not isinstance(d, T): raise E; [slit bookkeeping]; d.parent = self
    if len(rest) == 2 and isinstance(rest[0], ast.Assign) and isinstance(rest[1], ast.For) and not rest[1].orelse:
        cp = rest[0]
        okcopy = len(cp.targets) == 1 and isinstance(cp.targets[0], ast.Name) and cp.targets[0].id == var and isinstance(cp.value, ast.Call) \
            and isinstance(cp.value.func, ast.Attribute) and cp.value.func.attr == 'copy' and isinstance(cp.value.func.value, ast.Name) \
            and cp.value.func.value.id == var
        f = rest[1]
        if okcopy and isinstance(f.iter, ast.Name) and f.iter.id == var and isinstance(f.target, ast.Name) and len(f.body) >= 2 \
                and isinstance(f.body[0], ast.If) and not f.body[0].orelse and len(f.body[0].body) == 1:
            o = f.target.id
            t = not_(f.body[0].test)
            types = isinstance_call(t, o) if t is not None else None
            e = raise_kind(f.body[0].body[0])
            # the remaining statements may only touch the slit list and must end with the re-parenting
            middle_ok = all(_slit_bookkeeping(s, o) for s in f.body[1:-1])
            if types and e and reparent(f.body[-1], o) and middle_ok:
                return dict(kinds=kinds, kindErr=kerr, elemErr=e, atomic=False, types=types)
    return None


def _slit_bookkeeping(stmt, o):
    """`if not o.slit in self._slits: self._slits.append(o.slit)` - does not touch members, parents or can raise for a valid detector"""
    if not (isinstance(stmt, ast.If) and not stmt.orelse and len(stmt.body) == 1):
        return False
    names = {n.attr for n in ast.walk(stmt) if isinstance(n, ast.Attribute)}
    return names <= {'slit', '_slits', 'append'}


def analyse_add(fn):
    """`if not isinstance(x, T): raise E` at the top of add_observer / add_foil_detector -> (types, err)"""
    body = strip_doc(fn.body)
    if body and isinstance(body[0], ast.If) and len(fn.args.args) == 2:
        t = not_(body[0].test)
        types = isinstance_call(t, fn.args.args[1].arg) if t is not None else None
        e = raise_kind(body[0].body[0]) if len(body[0].body) == 1 else None
        if types and e:
            return types, e
    return None


def analyse_getitem(fn, container):
    """does `__getitem__` hand slice keys to the member container?
    Observer0DGroup shape: `try: selected = self._observers[item]` (any key type reaches the tuple);
    BolometerCamera shape: `if isinstance(item, (int[, slice])): try: return self._foil_detectors[item]`."""
    if len(fn.args.args) != 2:
        return False
    key = fn.args.args[1].arg
    body = strip_doc(fn.body)

    def indexes_container(stmts):
        for st in stmts:
            v = st.value if isinstance(st, (ast.Assign, ast.Return)) else None
            if isinstance(v, ast.Subscript) and is_self_attr(v.value, (container,)) and isinstance(v.slice, ast.Name) and v.slice.id == key:
                return True
        return False

    if not body:
        return False
    if isinstance(body[0], ast.Try):
        return indexes_container(body[0].body)
    if isinstance(body[0], ast.If):
        names = isinstance_call(body[0].test, key)
        inner = body[0].body
        if names and 'slice' in names and inner:
            return indexes_container(inner[0].body if isinstance(inner[0], ast.Try) else inner)
    return False


# ---------------------------------------------------------------------------------------------------------------
def scan(repo='/repo'):
    classes = {}          # name -> dict(node, bases, file)
    for f in FILES:
        tree = ast.parse(open(os.path.join(repo, f)).read())
        for n in tree.body:
            if isinstance(n, ast.ClassDef):
                classes[n.name] = dict(node=n, bases=[b.id for b in n.bases if isinstance(b, ast.Name)], file=f)

    def mro(name):
        out = []
        while name in classes:
            out.append(name)
            bs = [b for b in classes[name]['bases'] if b in classes]
            name = bs[0] if bs else None
        return out

    group_classes = [c for c in classes if any(r in mro(c) for r in ROOTS)]
    # ---- class-body simulation ------------------------------------------------------------------------------
    ns = {}               # class -> {name: entry}
    n_setters = 0
    for c in group_classes:
        root = [r for r in mro(c) if r in ROOTS][0]
        container = ROOTS[root][1]
        d = {}
        for st in classes[c]['node'].body:
            if isinstance(st, ast.FunctionDef):
                decs = [ast.unparse(x) for x in st.decorator_list]
                if decs == ['property']:
                    d[st.name] = dict(kind='property', getterFn=st.name, getter=analyse_getter(st, container),
                                      getter_reads=reads_container(st, container), setter=None, definedIn=c)
                elif len(decs) == 1 and decs[0].endswith('.setter') and '.' not in decs[0][:-7]:
                    n_setters += 1
                    tgt = decs[0][:-7]
                    src = d.get(tgt)
                    if src is None or src['kind'] != 'property':
                        # decorator target not a property of this class body: NameError at import in real Python
                        d[st.name] = dict(kind='property', getterFn='?', getter=dict(kind='unrecognised', hash=0), getter_reads=True,
                                          setter=dict(kind='unrecognised', hash=crc(st.body), fnName=st.name, decTarget=tgt), definedIn=c)
                    else:
                        d[st.name] = dict(kind='property', getterFn=src['getterFn'], getter=src['getter'], getter_reads=src['getter_reads'],
                                          setter=analyse_setter(st, tgt, container), definedIn=c)
                elif not decs:
                    d[st.name] = dict(kind='method', node=st, definedIn=c)
                else:
                    d[st.name] = dict(kind='other', definedIn=c)
            elif isinstance(st, ast.Assign):
                for t in st.targets:
                    if isinstance(t, ast.Name):
                        d[t.id] = dict(kind='value', value=ast.unparse(st.value), definedIn=c)
        ns[c] = d

    def lookup(c, name):
        for k in mro(c):
            if name in ns.get(k, {}):
                return ns[k][name]
        return None

    out_classes, table = [], []
    fingerprints = {}
    for c in group_classes:
        chain = mro(c)
        root = [r for r in chain if r in ROOTS][0]
        family = ROOTS[root][0]
        # accepted member types + error of the add method
        accepted, add_err = [], 'other'
        for addname in ('add_observer', 'add_foil_detector'):
            e = lookup(c, addname)
            if e and e['kind'] == 'method':
                r = analyse_add(e['node'])
                if r:
                    accepted, add_err = r
                break
        if accepted == ['self._OBSERVER_TYPE']:
            e = lookup(c, '_OBSERVER_TYPE')
            accepted = [e['value']] if e and e['kind'] == 'value' else []
        gi = lookup(c, '__getitem__')
        container = ROOTS[root][1]
        slice_keys = bool(gi and gi['kind'] == 'method' and analyse_getitem(gi['node'], container))
        names = []
        for k in reversed(chain):
            for n in ns[k]:
                if n not in names:
                    names.append(n)
        attrs = []
        for n in names:
            e = lookup(c, n)
            if e['kind'] != 'property':
                continue
            if e['setter'] is None and not e['getter_reads']:
                continue                      # read-only view of something else (e.g. BolometerCamera.slits)
            table.append(dict(cls=c, name=n, definedIn=e['definedIn'], getterFn=e['getterFn'], getter=e['getter'], setter=e['setter']))
            attrs.append(n)
        out_classes.append(dict(name=c, family=family, accepted=accepted, addErr=add_err, sliceKeys=slice_keys, attrs=attrs, file=classes[c]['file'], mro=chain))
        for m in HAND_MODELLED:
            e = lookup(c, m)
            if e and e['kind'] == 'method':
                fingerprints['%s.%s' % (e['definedIn'], m)] = crc(e['node'])
    return dict(classes=out_classes, table=table, n_setter_defs=n_setters, fingerprints=fingerprints)


# ---------------------------------------------------------------------------------------------------------------
def _s(x):
    return '"' + x.replace('\\', '\\\\').replace('"', '\\"') + '"'


def _kinds(ks):
    return '[' + ', '.join('.' + k for k in ks) + ']'


def _b(x):
    return 'true' if x else 'false'


def _getter(g):
    if g['kind'] == 'each':
        return '.each ' + _s(g['attr'])
    if g['kind'] == 'memberList':
        return '.memberList'
    return '.unrecognised %d' % g['hash']


def _setter(s):
    if s is None:
        return 'none'
    if s['kind'] == 'broadcast':
        t = s['test']
        test = {'isinst': lambda: '.isinst ' + _kinds(t['kinds']), 'sized': lambda: '.sized',
                'allItems': lambda: '.allItems ' + _kinds(t['kinds'])}[t['kind']]()
        e = s['orelse']
        orelse = {'broadcast': lambda: '.broadcast %s %s .%s' % (_s(e['attr']), _b(e['engineCheck']), e['err']),
                  'raise': lambda: '.raise .%s' % e['err'], 'absent': lambda: '.absent'}[e['kind']]()
        return ('some (.broadcast { fnName := %s, decTarget := %s, test := %s, lenCheck := %s, lenErr := .%s, seqAttr := %s, '
                'elemEngineCheck := %s, elemErr := .%s, orelse := %s })') % (
            _s(s['fnName']), _s(s['decTarget']), test, _b(s['lenCheck']), s['lenErr'], _s(s['seqAttr']), _b(s['elemEngineCheck']),
            s['elemErr'], orelse)
    if s['kind'] == 'members':
        return 'some (.members { fnName := %s, decTarget := %s, kinds := %s, kindErr := .%s, elemErr := .%s, atomic := %s })' % (
            _s(s['fnName']), _s(s['decTarget']), _kinds(s['kinds']), s['kindErr'], s['elemErr'], _b(s['atomic']))
    if s['kind'] == 'alias':
        return 'some (.alias %s %s %s)' % (_s(s['fnName']), _s(s['decTarget']), _s(s['target']))
    return 'some (.unrecognised %s %s %d)' % (_s(s['fnName']), _s(s['decTarget']), s['hash'])


def render(sc):
    L = ['/- GENERATED by harness/translators/groups.py from /repo (cherab/tools/observers/group/*.py, bolometry.py). Do not edit. -/',
         'import Cherab.Model.Groups', 'namespace Cherab.Gen.GroupTable', 'open Cherab.Groups', '',
         '/-- %d `@X.setter` definitions in the source; %d (class, attribute) descriptors after inheritance -/' % (sc['n_setter_defs'], len(sc['table'])),
         'def classes : List ClassInfo := [']
    L.append(',\n'.join('  { name := %s, family := .%s, accepted := [%s], addErr := .%s, sliceKeys := %s }' % (
        _s(c['name']), c['family'], ', '.join(_s(a) for a in c['accepted']), c['addErr'], _b(c['sliceKeys'])) for c in sc['classes']))
    L.append(']')
    L.append('')
    L.append('def table : List Descriptor := [')
    L.append(',\n'.join('  { cls := %s, name := %s, definedIn := %s, getterFn := %s,\n    getter := %s,\n    setter := %s }' % (
        _s(d['cls']), _s(d['name']), _s(d['definedIn']), _s(d['getterFn']), _getter(d['getter']), _setter(d['setter'])) for d in sc['table']))
    L.append(']')
    L.append('')
    L.append('end Cherab.Gen.GroupTable')
    return '\n'.join(L) + '\n'


def generate(repo='/repo'):
    from harness.vlib import lean
    from harness.vlib.util import LEAN
    sc = scan(repo)
    changed = lean.write_if_changed(os.path.join(LEAN, 'Cherab', 'Gen', 'GroupTable.lean'), render(sc))
    return sc, changed


if __name__ == '__main__':
    import collections
    import sys
    sc = scan(sys.argv[1] if len(sys.argv) > 1 else '/repo')
    print('setter defs', sc['n_setter_defs'], 'descriptors', len(sc['table']))
    shapes = collections.Counter()
    for d in sc['table']:
        s = d['setter']
        shapes[(s or {}).get('kind', 'none') + ':' + ((s or {}).get('test') or {}).get('kind', '') + ':' + ((s or {}).get('orelse') or {}).get('kind', '')] += 1
        if s is None or s['kind'] == 'unrecognised' or d['getter']['kind'] == 'unrecognised' or (s.get('fnName') != s.get('decTarget')):
            print('IRREGULAR', d['cls'], d['name'], d['getter'], s)
    print(dict(shapes))
    for c in sc['classes']:
        print(c['name'], c['family'], c['accepted'], c['addErr'], len(c['attrs']))
