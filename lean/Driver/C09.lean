import Cherab.Drv.Proto
import Cherab.Model.IonBalance
import Cherab.Gen.IonBalance
open Cherab.Drv Cherab.IonBalance

/-! C09 driver.  Rates travel as lists `S_0…S_{Z-1}`, `A_1…A_Z`, `C_1…C_Z`; the least-squares solver of the model is
instantiated with `bdSolve` (reads only the matrix the model built).  The `coef_tcx` selection flags come from the
generated table unless a command overrides them (`x` variants). -/

def genFlags : Flags := Cherab.Gen.IonBalance.flags

def fnS (l : List Float) : Nat → Float := fun i => l.getD i 0
/-- `A i`, `C i` are indexed from 1 -/
def fnA (l : List Float) : Nat → Float := fun i => l.getD (i - 1) 0

def outZ (Z : Nat) (f : Nat → Float) : String := fFs ((List.range (Z + 1)).map f)

/-- parse `S[Z] A[Z] C[Z]` -/
def rates3 (Z : Nat) (ts : List String) : (Nat → Float) × (Nat → Float) × (Nat → Float) × List String :=
  let (s, r1) := takeF Z ts
  let (a, r2) := takeF Z r1
  let (c, r3) := takeF Z r2
  (fnS s, fnA a, fnA c, r3)

def takeSpecies : Nat → List String → List (List Float)
  | 0, _ => []
  | k + 1, n :: r => let m := pN n; ((r.take m).map pF) :: takeSpecies k (r.drop m)
  | _, _ => []

/-- species given as dictionaries: per species `m k_1 v_1 … k_m v_m` in insertion order -/
def takeDicts : Nat → List String → List (List (Nat × Float)) × List String
  | 0, r => ([], r)
  | k + 1, n :: r =>
      let m := pN n
      let rec pairs : Nat → List String → List (Nat × Float)
        | 0, _ => []
        | j + 1, a :: b :: t => (pN a, pF b) :: pairs j t
        | _, _ => []
      let (rest, r') := takeDicts k (r.drop (2 * m))
      (pairs m r :: rest, r')
  | _, r => ([], r)

def chunks (c : Nat) : Nat → List Float → List (List Float)
  | 0, _ => []
  | r + 1, l => l.take c :: chunks c r (l.drop c)

def takeProfile : List String → Option (Profile Float × List String)
  | "s" :: v :: r => some (.scalar (pF v), r)
  | "a1" :: n :: r => let k := pN n; some (.arr1 ((r.take k).map pF), r.drop k)
  | "a2" :: nr :: nc :: r =>
      let a := pN nr; let b := pN nc
      some (.arr2 (chunks b a ((r.take (a * b)).map pF)), r.drop (a * b))
  | "f1" :: a :: b :: r => some (.fn1 (fun x => pF a + pF b * x), r)
  | "f2" :: a :: b :: c :: r => some (.fn2 (fun x y => pF a + pF b * x + pF c * y), r)
  | _ => none

def takeFree : List String → Option (FreeVar Float × List String)
  | "fv0" :: r => some (.none, r)
  | "fv1" :: n :: r => let k := pN n; some (.one ((r.take k).map pF), r.drop k)
  | "fv2" :: n :: r =>
      let k := pN n
      let xs := (r.take k).map pF
      match r.drop k with
      | m :: r' => let j := pN m; some (.two xs ((r'.take j).map pF), r'.drop j)
      | [] => none
  | _ => none

/-- donor parameter: `dnone` or a profile -/
def takeDonor : List String → Option (Option (Profile Float) × List String)
  | "dnone" :: r => some (none, r)
  | ts => match takeProfile ts with
    | some (p, r) => some (some p, r)
    | none => none

def shapeStr (sh : List Nat) : String := toString sh.length ++ " " ++ " ".intercalate (sh.map toString)

/-- (n_e,T_e)-dependent rate family of the mock provider: S_i = s_i(1+p t), A_i = a_i(1+q n), C_i = c_i(1+p t+q n) -/
def famS (s : Nat → Float) (p : Float) : Float → Float → Nat → Float := fun _ t i => s i * (1.0 + p * t)
def famA (a : Nat → Float) (q : Float) : Float → Float → Nat → Float := fun n _ i => a i * (1.0 + q * n)
def famC (c : Nat → Float) (p q : Float) : Float → Float → Nat → Float := fun n t i => c i * (1.0 + p * t + q * n)

def step (ts : List String) : String :=
  match ts with
  | "mat" :: z :: tcx :: ne :: nD :: rest =>
      let Z := pN z
      let (S, A, C, _) := rates3 Z rest
      let t := if pB tcx then some C else none
      fFs ((matrixRows Z S A t (pF ne) (pF nD)).flatten ++ rhsList Z (pF ne))
  | "closed" :: z :: tcx :: ne :: nD :: rest =>
      let Z := pN z
      let (S, A, C, _) := rates3 Z rest
      let t := if pB tcx then some C else none
      outZ Z (closedFrac Z S A t (pF ne) (pF nD))
  | "frac" :: z :: donor :: ne :: nD :: rest =>
      let Z := pN z
      let (S, A, C, _) := rates3 Z rest
      outZ Z (entryFractional genFlags bdSolve Z S A C (pB donor) (pF ne) (pF nD))
  | "fd" :: z :: donor :: ne :: nD :: dens :: rest =>
      let Z := pN z
      let (S, A, C, _) := rates3 Z rest
      outZ Z (entryFromDensity genFlags bdSolve Z S A C (pB donor) (pF ne) (pF nD) (pF dens))
  | "fdx" :: k :: z :: donor :: ne :: nD :: dens :: rest =>
      let Z := pN z
      let (S, A, C, _) := rates3 Z rest
      outZ Z (entryFromDensity ⟨pB k, pB k, pB k⟩ bdSolve Z S A C (pB donor) (pF ne) (pF nD) (pF dens))
  | "mn" :: z :: donor :: ne :: nD :: nsp :: rest =>
      let Z := pN z
      let sp := takeSpecies (pN nsp) rest
      let used := sp.foldl (fun a l => a + l.length + 1) 0
      let (S, A, C, _) := rates3 Z (rest.drop used)
      outZ Z (entryMatch genFlags bdSolve Z S A C (pB donor) (pF ne) (pF nD) sp)
  -- species as {charge: density} dictionaries in insertion order: "mnd Z donor ne nD nsp (m (k v)*)* S A C"
  | "mnd" :: z :: donor :: ne :: nD :: nsp :: rest =>
      let Z := pN z
      let (ds, r) := takeDicts (pN nsp) rest
      let (S, A, C, _) := rates3 Z r
      outZ Z (entryMatch genFlags bdSolve Z S A C (pB donor) (pF ne) (pF nD) (speciesOfDicts ds))
  | "mnx" :: k :: z :: donor :: ne :: nD :: nsp :: rest =>
      let Z := pN z
      let sp := takeSpecies (pN nsp) rest
      let used := sp.foldl (fun a l => a + l.length + 1) 0
      let (S, A, C, _) := rates3 Z (rest.drop used)
      outZ Z (entryMatch ⟨pB k, pB k, pB k⟩ bdSolve Z S A C (pB donor) (pF ne) (pF nD) sp)
  -- profile level: "pfrac Z donor p q S A C <fv> <ne> <te> <donor-density|dnone>"
  -- and            "pfd   Z donor p q S A C <fv> <ne> <te> <donor-density|dnone> <element density>"
  | kind :: z :: donor :: p :: q :: rest =>
      if kind != "pfrac" && kind != "pfd" then "bad-op" else
      let Z := pN z
      let (s, a, c, r0) := rates3 Z rest
      let S := famS s (pF p); let A := famA a (pF q); let C := famC c (pF p) (pF q)
      match takeFree r0 with
      | none => "bad-fv"
      | some (fv, r1) =>
        match takeProfile r1 with
        | none => "bad-ne"
        | some (pne, r2) =>
          match takeProfile r2 with
          | none => "bad-te"
          | some (pte, r3) =>
            match takeDonor r3 with
            | none => "bad-donor"
            | some (pd, r4) =>
              if kind == "pfrac" then
                match callFractional genFlags bdSolve Z S A C (pB donor) fv pne pte pd with
                | some (sh, ne, te, res) =>
                    shapeStr sh ++ " " ++ fFs ((ne.zip (te.zip res)).flatMap fun x =>
                      [x.1, x.2.1] ++ (List.range (Z + 1)).map x.2.2)
                | none => "err"
              else
                match takeProfile r4 with
                | none => "bad-dens"
                | some (pdens, _) =>
                  match callFromDensity genFlags bdSolve Z S A C (pB donor) fv pdens pne pte pd with
                  | some (sh, ne, te, res) =>
                      shapeStr sh ++ " " ++ fFs ((ne.zip (te.zip res)).flatMap fun x =>
                        [x.1, x.2.1] ++ (List.range (Z + 1)).map x.2.2)
                  | none => "err"
  | _ => "bad-op"

def main : IO UInt32 := do
  loop (stateless step) (← IO.getStdin) (← IO.getStdout) ()
  return 0
