import Cherab.Props.C19
import Cherab.Lemmas.RegistryStr

/-!
# C19, round 6: the integer lookup is a total decision function (full strength)

`lookup_element(n)` for an `int` n goes through `str(n).lower()` and the same dictionary as the string lookups
(elements.pyx `lookup_element`: `_element_index[str(v).lower()]`).  Round 4 left the ⇒ direction at "the numeral is one
of e's keys"; with `str` injective on ints, `lower` fixing numerals and the last byte of a numeral being a digit
(Lemmas/RegistryStr.lean) plus one table check (no lower-cased symbol or name ends in a digit) it closes.
-/

namespace Cherab.Props.C19

open Cherab.Registry Cherab.Gen.Elements

/-- last byte of a code is an ASCII digit -/
def endsInDigit (c : Nat) : Bool := decide (48 ≤ c % 256) && decide (c % 256 ≤ 57)

/-- no element's lower-cased symbol or name ends in a decimal digit (so a numeral never collides with them) -/
def chkNoDigitEnd : Bool := elements.all fun e => !endsInDigit (lower e.sym) && !endsInDigit (lower e.name)

theorem chk_no_digit_end : chkNoDigitEnd = true := by decide +kernel

theorem endsInDigit_strInt (n : Int) : endsInDigit (lower (strInt n)) = true := by
  rw [lower_strInt]
  have := strInt_last n
  simp [endsInDigit, this.1, this.2]

/-- **`lookup_element(n)` for every Python int n** (negative, zero, huge included): it returns `e` exactly when `e` is an
exported element and `n` is its atomic number; in particular an int never reaches an element through its name or symbol key
and two different ints never reach the same element.  Supersedes `lookup_element_int_decision_partial`. -/
theorem lookup_element_int_decision (n : Int) (e : El) :
    lookupElement elementIndex (.int n) = some e ↔ e ∈ elements ∧ n = (e.z : Int) := by
  constructor
  · intro h
    obtain ⟨he, hk⟩ := (lookup_element_int_decision_partial n e).1.mp h
    refine ⟨he, ?_⟩
    have hc := chk_no_digit_end
    simp only [chkNoDigitEnd, List.all_eq_true, Bool.and_eq_true, Bool.not_eq_true'] at hc
    have hd := endsInDigit_strInt n
    simp only [elementKeys, List.mem_cons, List.mem_nil_iff, or_false] at hk
    rcases hk with h1 | h2 | h3
    · rw [h1, (hc e he).1] at hd; exact absurd hd (by simp)
    · rw [h2, (hc e he).2] at hd; exact absurd hd (by simp)
    · rw [lower_strInt] at h3
      cases n with
      | ofNat m => exact congrArg Int.ofNat (strNat_inj h3)
      | negSucc m => exact absurd h3 (strInt_neg_ne m e.z)
  · rintro ⟨he, hn⟩
    exact (lookup_element_int_decision_partial n e).2 he hn

example : lookupElement elementIndex (.int 74) = some o_tungsten ∧ o_tungsten ∈ elements := by decide +kernel
example : ¬ (o_tungsten ∈ elements ∧ ((-74 : Int) = (o_tungsten.z : Int))) := by decide +kernel

/-- an int that is nobody's atomic number raises: `lookup_element(n)` is `none` ⇔ no exported element has Z = n -/
theorem lookup_element_int_none_iff (n : Int) :
    lookupElement elementIndex (.int n) = none ↔ ∀ e ∈ elements, n ≠ (e.z : Int) := by
  constructor
  · intro h e he hn
    have := (lookup_element_int_decision n e).2 ⟨he, hn⟩
    rw [h] at this
    exact absurd this (by simp)
  · intro h
    cases hh : lookupElement elementIndex (.int n) with
    | none => rfl
    | some e =>
      obtain ⟨he, hn⟩ := (lookup_element_int_decision n e).1 hh
      exact absurd hn (h e he)

example : lookupElement elementIndex (.int 0) = none := by decide +kernel

/-- two ints that resolve to the same element are the same int (no aliasing through `str`/`lower`, e.g. `-6` vs `6`) -/
theorem lookup_element_int_injective (n m : Int) (e : El)
    (hn : lookupElement elementIndex (.int n) = some e) (hm : lookupElement elementIndex (.int m) = some e) : n = m := by
  rw [((lookup_element_int_decision n e).1 hn).2, ((lookup_element_int_decision m e).1 hm).2]

example : lookupElement elementIndex (.int 6) = some o_carbon := by decide +kernel

/-- **lower-casing is a normal form for every identifier lookup** (any index, any string, any `number`): looking up
`s.lower()` is looking up `s` — `lower` is idempotent (`lower_idem`), so the functions' own `.lower()` call absorbs the caller's.
Was listed as unproved in round 4. -/
theorem lookup_lower_normal_form (eidx : Index El) (iidx : Index Iso) (s : Nat) (number : Option Int) :
    lower (lower s) = lower s ∧
    lookupElement eidx (.str (lower s)) = lookupElement eidx (.str s) ∧
    lookupIsotope eidx iidx (.str (lower s)) number = lookupIsotope eidx iidx (.str s) number := by
  have hi := lower_idem s
  refine ⟨hi, lookupElement_case eidx hi, ?_⟩
  have he := lookupElement_case eidx hi
  cases number with
  | none => exact lookupIsotope_case eidx iidx hi
  | some n =>
    by_cases hn : n = 0
    · subst hn
      show iidx.get? (lower (lower s)) = iidx.get? (lower s)
      rw [hi]
    · rw [lookupIsotope_number _ _ _ (by intro j h; cases h) n hn,
          lookupIsotope_number _ _ _ (by intro j h; cases h) n hn, he]

example : lookupElement elementIndex (.str (lower (enc "TUNGSTEN"))) = some o_tungsten := by decide +kernel

end Cherab.Props.C19
