import Cherab.Model.BeamCache
import Cherab.Gen.BeamCacheOrder

/-!
# C05, round 6 — the data cache of `BeamCXLine` / `BeamEmissionLine` as a state machine

`Model/BeamCache.lean` transcribes the protocol (guard test in `emission`, the writes of `_populate_cache` in source order,
the resets of `_change`), including "`_populate_cache` may raise after `k` writes".

* without provider failures the unchanged code is correct: for **every history** of configuration changes and emissions,
  every emission is the one of a model constructed fresh in the current configuration (`*_head_all_histories`);
* with failures it is not: after a failed first attempt the retry dereferences a half-filled cache
  (`cxHead_failed_populate_broken`, `besHead_failed_populate_broken`: negations on the witnesses replayed on /repo, both
  segmentation faults), or silently renders with the line shape of the *previous* line (`cxHead_failed_populate_stale_lineshape`);
* with the guard written last (notes/fixes/C05-r6-1.diff) a failed populate leaves the guard `None`
  (`guard_last_failed_populate_keeps_guard_empty`, any design), and for every history with failures at arbitrary points
  every emission either raises (only when the provider failed in that very call) or is the fresh one
  (`cxFixed_all_histories`, `besFixed_all_histories`);
* **tie to the source**: `Gen/BeamCacheOrder.lean` is regenerated from the two `.pyx` files on every run
  (harness/translators/beam_cache.py); `cxSource_eq_fixed` / `besSource_eq_fixed` (`decide`) say that the protocol the
  source has *now* is the one with the guard written last, and `*Source_all_histories`, `*Source_failed_then_retry` lift
  the theorems to it.  Re-introducing the old statement order regenerates the file and these proofs stop building.
-/
namespace Cherab.Props.C05Cache
open Cherab.BeamCache

/-- either the next `emission` repopulates, or everything it reads was derived from the current configuration -/
def Inv (d : Design) (m : Model) : Prop :=
  m.cache d.guard = .empty ∨ ∀ f ∈ d.reads, m.cache f = .full m.cfg

/-- what one step may produce: nothing (a change), the fresh emission of the current configuration, or — only when the
provider failed in this very call — an exception -/
def StepOk (d : Design) (m : Model) (op : Op) : Prop :=
  Inv d (step d m op).1 ∧
  ∀ o, (step d m op).2 = some o → o = (m.cfg, freshObs d m.cfg) ∨ (o = (m.cfg, .raised) ∧ ∃ k, op = .emit (some k))

theorem inv_fresh (d : Design) (c : Nat) : Inv d (fresh c) := Or.inl rfl

/-- lifting a one-step lemma to all histories -/
theorem run_of_step (d : Design) (valid : Op → Prop)
    (hstep : ∀ m op, Inv d m → valid op → StepOk d m op) :
    ∀ (ops : List Op) (m : Model), Inv d m → (∀ op ∈ ops, valid op) →
      Inv d (run d m ops).1 ∧
      ∀ o ∈ (run d m ops).2, o.2 = freshObs d o.1 ∨ o.2 = .raised := by
  intro ops
  induction ops with
  | nil => intro m h _; exact ⟨h, by simp [run]⟩
  | cons op ops ih =>
    intro m h hv
    have hs := hstep m op h (hv op (by simp))
    have hr := ih (step d m op).1 hs.1 (fun o ho => hv o (by simp [ho]))
    refine ⟨by simpa [run] using hr.1, ?_⟩
    intro o ho
    simp only [run, List.mem_append] at ho
    rcases ho with ho | ho
    · cases hso : (step d m op).2 with
      | none => simp [hso] at ho
      | some o' =>
        simp [hso] at ho
        subst ho
        rcases hs.2 o hso with h1 | ⟨h1, _⟩ <;> simp [h1]
    · exact hr.2 o ho

/-! ### the unchanged tree, providers that do not fail -/

theorem cxHead_step (m : Model) (op : Op) (h : Inv cxHead m) (hv : ∀ k, op ≠ .emit (some k)) : StepOk cxHead m op := by
  cases op with
  | change c => exact ⟨Or.inl (by simp [step, change, cxHead]), by simp [step]⟩
  | emit fail =>
    cases fail with
    | some k => exact absurd rfl (hv k)
    | none =>
      by_cases hg : m.cache .guard = .empty
      · refine ⟨Or.inr ?_, ?_⟩
        · intro f hf
          simp [cxHead] at hf
          rcases hf with rfl | rfl | rfl | rfl <;>
            simp [step, emission, cxHead, hg, populate, runStmts, exec, Model.set]
        · simp [step, emission, cxHead, hg, populate, runStmts, exec, Model.set, BeamCache.read, freshObs]
      · have hall : ∀ f ∈ cxHead.reads, m.cache f = .full m.cfg := h.resolve_left hg
        have h1 := hall .guard (by simp [cxHead])
        have h2 := hall .ground (by simp [cxHead])
        have h3 := hall .data (by simp [cxHead])
        have h4 := hall .lineshape (by simp [cxHead])
        refine ⟨by simpa [step, emission, cxHead, hg] using h, ?_⟩
        simp [step, emission, cxHead, BeamCache.read, freshObs, h1, h2, h3, h4]

theorem besHead_step (m : Model) (op : Op) (h : Inv besHead m) (hv : ∀ k, op ≠ .emit (some k)) : StepOk besHead m op := by
  cases op with
  | change c => exact ⟨Or.inl (by simp [step, change, besHead]), by simp [step]⟩
  | emit fail =>
    cases fail with
    | some k => exact absurd rfl (hv k)
    | none =>
      by_cases hg : m.cache .data = .empty
      · refine ⟨Or.inr ?_, ?_⟩
        · intro f hf
          simp [besHead] at hf
          rcases hf with rfl | rfl <;>
            simp [step, emission, besHead, hg, populate, runStmts, exec, Model.set]
        · simp [step, emission, besHead, hg, populate, runStmts, exec, Model.set, BeamCache.read, freshObs]
      · have hall : ∀ f ∈ besHead.reads, m.cache f = .full m.cfg := h.resolve_left hg
        have h3 := hall .data (by simp [besHead])
        have h4 := hall .lineshape (by simp [besHead])
        refine ⟨by simpa [step, emission, besHead, hg] using h, ?_⟩
        simp [step, emission, besHead, BeamCache.read, freshObs, h3, h4]

/-- without a failing provider no emission raises -/
theorem run_no_fail_not_raised (d : Design)
    (hstep : ∀ m op, Inv d m → (∀ k, op ≠ .emit (some k)) → StepOk d m op) :
    ∀ (ops : List Op) (m : Model), Inv d m → (∀ op ∈ ops, ∀ k, op ≠ .emit (some k)) →
      ∀ o ∈ (run d m ops).2, o.2 ≠ .raised := by
  intro ops
  induction ops with
  | nil => intro m _ _ o ho; simp [run] at ho
  | cons op ops ih =>
    intro m hI hv o ho
    have hs := hstep m op hI (hv op (by simp))
    simp only [run, List.mem_append] at ho
    rcases ho with ho | ho
    · cases hso : (step d m op).2 with
      | none => simp [hso] at ho
      | some o' =>
        simp [hso] at ho
        subst ho
        rcases hs.2 o hso with h1 | ⟨_, k, hk⟩
        · simp [h1, freshObs]
        · exact absurd hk (hv op (by simp) k)
    · exact ih _ hs.1 (fun o ho => hv o (by simp [ho])) o ho

/-- **`BeamCXLine`, unchanged tree, working provider**: for every history of configuration changes (`_change`) and
emissions, every emission equals the first emission of a model constructed in the configuration current at that moment -/
theorem cxHead_all_histories (c₀ : Nat) (ops : List Op) (hv : ∀ op ∈ ops, ∀ k, op ≠ .emit (some k)) :
    ∀ o ∈ (run cxHead (fresh c₀) ops).2, o.2 = freshObs cxHead o.1 := fun o ho =>
  ((run_of_step cxHead (fun op => ∀ k, op ≠ .emit (some k)) cxHead_step ops (fresh c₀) (inv_fresh _ _) hv).2 o ho).resolve_right
    (run_no_fail_not_raised cxHead cxHead_step ops (fresh c₀) (inv_fresh _ _) hv o ho)

/-- **`BeamEmissionLine`, unchanged tree, working provider**: the same statement -/
theorem besHead_all_histories (c₀ : Nat) (ops : List Op) (hv : ∀ op ∈ ops, ∀ k, op ≠ .emit (some k)) :
    ∀ o ∈ (run besHead (fresh c₀) ops).2, o.2 = freshObs besHead o.1 := fun o ho =>
  ((run_of_step besHead (fun op => ∀ k, op ≠ .emit (some k)) besHead_step ops (fresh c₀) (inv_fresh _ _) hv).2 o ho).resolve_right
    (run_no_fail_not_raised besHead besHead_step ops (fresh c₀) (inv_fresh _ _) hv o ho)

example : (run cxHead (fresh 0) [.emit none, .change 1, .emit none, .emit none, .change 2, .change 3, .emit none]).2
    = [(0, freshObs cxHead 0), (1, freshObs cxHead 1), (1, freshObs cxHead 1), (3, freshObs cxHead 3)] := by decide

/-! ### the unchanged tree, a provider that fails once: negations on the replayed witnesses -/

/-- `beam_cx_pec` raises on the first attempt (after `_target_species` and `_wavelength` were written): the retry does not
repopulate and dereferences `_ground_beam_rate = None` — on /repo a segmentation fault -/
theorem cxHead_failed_populate_broken :
    (run cxHead (fresh 0) [.emit (some 2), .emit none]).2 = [(0, .raised), (0, .broken)] ∧
    (run cxHead (fresh 0) [.emit (some 2), .emit none]).1.cache .guard = .full 0 ∧
    ¬ ∀ o ∈ (run cxHead (fresh 0) [.emit (some 2), .emit none]).2, o.2 = freshObs cxHead o.1 ∨ o.2 = .raised := by
  decide

/-- the line-shape constructor raises after a line change: the retry renders with the line shape built for the *previous*
line (`_change` does not reset `_lineshape`), silently -/
theorem cxHead_failed_populate_stale_lineshape :
    (run cxHead (fresh 0) [.emit none, .change 1, .emit (some 5), .emit none]).2
      = [(0, freshObs cxHead 0), (1, .raised), (1, .ok [.full 1, .full 1, .full 1, .full 0])] ∧
    Obs.ok [.full 1, .full 1, .full 1, .full 0] ≠ freshObs cxHead 1 := by
  decide

/-- `beam_emission_pec` raises for the second species (after `self._rates_list = []`): the retry does not repopulate and
dereferences `_lineshape = None` with a partial rate list — on /repo a segmentation fault -/
theorem besHead_failed_populate_broken :
    (run besHead (fresh 0) [.emit (some 2), .emit none]).2 = [(0, .raised), (0, .broken)] ∧
    (run besHead (fresh 0) [.emit (some 2), .emit none]).1.cache .data = .partly 0 := by
  decide

/-- a failure before the guard is written (`wavelength` of `BeamEmissionLine`) is harmless on the unchanged tree as well -/
theorem besHead_failed_before_guard_ok :
    (run besHead (fresh 0) [.emit (some 0), .emit none]).2 = [(0, .raised), (0, freshObs besHead 0)] := by
  decide

/-! ### guard written last (notes/fixes/C05-r6-1.diff) -/

theorem runStmts_other (f : Field) : ∀ (l : List Stmt) (m : Model),
    (∀ s ∈ l, s ≠ .assign f ∧ s ≠ .init f) → (runStmts m l).cache f = m.cache f ∧ (runStmts m l).cfg = m.cfg := by
  intro l
  induction l with
  | nil => intro m _; exact ⟨rfl, rfl⟩
  | cons s l ih =>
    intro m h
    have hs := h s (by simp)
    have := ih (exec m s) (fun t ht => h t (by simp [ht]))
    simp only [runStmts, List.foldl_cons] at this ⊢
    rw [this.1, this.2]
    cases s with
    | assign g =>
      have : f ≠ g := fun e => hs.1 (by rw [e])
      simp [exec, Model.set, this]
    | init g =>
      have : f ≠ g := fun e => hs.2 (by rw [e])
      simp [exec, Model.set, this]

/-- **any design whose guard is written by the last statement only**: a populate that fails at any point leaves the
guard as it was — `None` — so the next `emission` starts again -/
theorem guard_last_failed_populate_keeps_guard_empty (d : Design) (pre : List Stmt)
    (hord : d.order = pre ++ [.assign d.guard]) (hpre : ∀ s ∈ pre, s ≠ .assign d.guard ∧ s ≠ .init d.guard)
    (m : Model) (hg : m.cache d.guard = .empty) (k : Nat) (hk : k < d.order.length) :
    (populate d (some k) m).1.cache d.guard = .empty ∧ (populate d (some k) m).2 = false := by
  refine ⟨?_, rfl⟩
  have hk' : k ≤ pre.length := by simp [hord] at hk; omega
  have htake : d.order.take k = pre.take k := by rw [hord, List.take_append_of_le_length hk']
  simp only [populate, htake]
  rw [(runStmts_other d.guard (pre.take k) m (fun s hs => hpre s (List.mem_of_mem_take hs))).1, hg]

example : (populate cxFixed (some 5) (fresh 7)).1.cache .guard = .empty :=
  (guard_last_failed_populate_keeps_guard_empty cxFixed
          [.assign .wavelength, .init .data, .assign .ground, .assign .data, .assign .lineshape] rfl (by decide) (fresh 7) rfl 5 (by decide)).1

/-- the unchanged order does not have that property (witness: failure after the first write) -/
theorem cxHead_failed_populate_sets_guard : (populate cxHead (some 1) (fresh 0)).1.cache cxHead.guard ≠ .empty := by decide
theorem besHead_failed_populate_sets_guard : (populate besHead (some 2) (fresh 0)).1.cache besHead.guard ≠ .empty := by decide

theorem emission_fail (d : Design) (k : Nat) (m : Model) (hg : m.cache d.guard = .empty) :
    emission d (some k) m = ((populate d (some k) m).1, .raised) := by
  simp [emission, hg, populate]

theorem cxFixed_step (m : Model) (op : Op) (h : Inv cxFixed m) (hv : op.valid cxFixed) : StepOk cxFixed m op := by
  cases op with
  | change c => exact ⟨Or.inl (by simp [step, change, cxFixed]), by simp [step]⟩
  | emit fail =>
    by_cases hg : m.cache .guard = .empty
    · cases fail with
      | some k =>
        have hk : k < cxFixed.order.length := hv
        have hp := guard_last_failed_populate_keeps_guard_empty cxFixed
          [.assign .wavelength, .init .data, .assign .ground, .assign .data, .assign .lineshape] rfl (by decide) m hg k hk
        have he := emission_fail cxFixed k m hg
        refine ⟨Or.inl ?_, ?_⟩
        · show (emission cxFixed (some k) m).1.cache cxFixed.guard = .empty
          rw [he]; exact hp.1
        · intro o ho
          right
          have ho' : some (m.cfg, (emission cxFixed (some k) m).2) = some o := ho
          rw [he] at ho'
          exact ⟨(Option.some.inj ho').symm, k, rfl⟩
      | none =>
        refine ⟨Or.inr ?_, ?_⟩
        · intro f hf
          simp [cxFixed] at hf
          rcases hf with rfl | rfl | rfl | rfl <;>
            simp [step, emission, cxFixed, hg, populate, runStmts, exec, Model.set]
        · simp [step, emission, cxFixed, hg, populate, runStmts, exec, Model.set, BeamCache.read, freshObs]
    · have hall : ∀ f ∈ cxFixed.reads, m.cache f = .full m.cfg := h.resolve_left hg
      have h1 := hall .guard (by simp [cxFixed])
      have h2 := hall .ground (by simp [cxFixed])
      have h3 := hall .data (by simp [cxFixed])
      have h4 := hall .lineshape (by simp [cxFixed])
      refine ⟨by simpa [step, emission, cxFixed, hg] using h, ?_⟩
      simp [step, emission, cxFixed, BeamCache.read, freshObs, h1, h2, h3, h4]

theorem besFixed_step (m : Model) (op : Op) (h : Inv besFixed m) (hv : op.valid besFixed) : StepOk besFixed m op := by
  cases op with
  | change c => exact ⟨Or.inl (by simp [step, change, besFixed]), by simp [step]⟩
  | emit fail =>
    by_cases hg : m.cache .data = .empty
    · cases fail with
      | some k =>
        have hk : k < besFixed.order.length := hv
        have hp := guard_last_failed_populate_keeps_guard_empty besFixed
          [.assign .wavelength, .assign .lineshape] rfl (by decide) m hg k hk
        have he := emission_fail besFixed k m hg
        refine ⟨Or.inl ?_, ?_⟩
        · show (emission besFixed (some k) m).1.cache besFixed.guard = .empty
          rw [he]; exact hp.1
        · intro o ho
          right
          have ho' : some (m.cfg, (emission besFixed (some k) m).2) = some o := ho
          rw [he] at ho'
          exact ⟨(Option.some.inj ho').symm, k, rfl⟩
      | none =>
        refine ⟨Or.inr ?_, ?_⟩
        · intro f hf
          simp [besFixed] at hf
          rcases hf with rfl | rfl <;>
            simp [step, emission, besFixed, hg, populate, runStmts, exec, Model.set]
        · simp [step, emission, besFixed, hg, populate, runStmts, exec, Model.set, BeamCache.read, freshObs]
    · have hall : ∀ f ∈ besFixed.reads, m.cache f = .full m.cfg := h.resolve_left hg
      have h3 := hall .data (by simp [besFixed])
      have h4 := hall .lineshape (by simp [besFixed])
      refine ⟨by simpa [step, emission, besFixed, hg] using h, ?_⟩
      simp [step, emission, besFixed, BeamCache.read, freshObs, h3, h4]

/-- **`BeamCXLine` with the fix**: for every history of configuration changes and emissions in which the provider may
fail at any point of any populate, every emission either raises or equals the fresh emission of the current configuration;
the cache is never observed half-filled -/
theorem cxFixed_all_histories (c₀ : Nat) (ops : List Op) (hv : ∀ op ∈ ops, op.valid cxFixed) :
    ∀ o ∈ (run cxFixed (fresh c₀) ops).2, o.2 = freshObs cxFixed o.1 ∨ o.2 = .raised :=
  (run_of_step cxFixed (Op.valid cxFixed) cxFixed_step ops (fresh c₀) (inv_fresh _ _) hv).2

/-- **`BeamEmissionLine` with the fix**: the same statement -/
theorem besFixed_all_histories (c₀ : Nat) (ops : List Op) (hv : ∀ op ∈ ops, op.valid besFixed) :
    ∀ o ∈ (run besFixed (fresh c₀) ops).2, o.2 = freshObs besFixed o.1 ∨ o.2 = .raised :=
  (run_of_step besFixed (Op.valid besFixed) besFixed_step ops (fresh c₀) (inv_fresh _ _) hv).2

/-- the witnesses of the unchanged tree under the fixed order: raise, then the fresh emission -/
example : (run cxFixed (fresh 0) [.emit (some 2), .emit none]).2 = [(0, .raised), (0, freshObs cxFixed 0)] := by decide
example : (run cxFixed (fresh 0) [.emit none, .change 1, .emit (some 5), .emit none]).2
    = [(0, freshObs cxFixed 0), (1, .raised), (1, freshObs cxFixed 1)] := by decide
example : (run besFixed (fresh 0) [.emit (some 2), .emit none]).2 = [(0, .raised), (0, freshObs besFixed 0)] := by decide
example : ∀ op ∈ [Op.emit (some 2), .emit none, .change 1, .emit (some 5)], op.valid cxFixed := by
  intro op h; simp at h; rcases h with rfl | rfl | rfl | rfl <;> simp [Op.valid, cxFixed]

/-! ### the source as it is now (generated) -/

open Cherab.Gen.BeamCacheOrder

theorem cxSource_eq_fixed : cxSource = cxFixed := by decide
theorem besSource_eq_fixed : besSource = besFixed := by decide

/-- every failure point the translator found in the source is a valid failure point of the model -/
theorem source_fail_points_valid :
    (∀ p ∈ cxFailAt, p.2 < cxSource.order.length) ∧ (∀ p ∈ besFailAt, p.2 < besSource.order.length) := by decide

/-- a first emission whose populate fails at any point leaves the guard `None`, and the retry is the fresh emission -/
theorem cxFixed_failed_then_retry (c k : Nat) (hk : k < cxFixed.order.length) :
    (populate cxFixed (some k) (fresh c)).1.cache .guard = .empty ∧
    (run cxFixed (fresh c) [.emit (some k), .emit none]).2 = [(c, .raised), (c, freshObs cxFixed c)] := by
  have : k = 0 ∨ k = 1 ∨ k = 2 ∨ k = 3 ∨ k = 4 ∨ k = 5 := by simp [cxFixed] at hk; omega
  rcases this with rfl | rfl | rfl | rfl | rfl | rfl <;> exact ⟨rfl, rfl⟩

theorem besFixed_failed_then_retry (c k : Nat) (hk : k < besFixed.order.length) :
    (populate besFixed (some k) (fresh c)).1.cache .data = .empty ∧
    (run besFixed (fresh c) [.emit (some k), .emit none]).2 = [(c, .raised), (c, freshObs besFixed c)] := by
  have : k = 0 ∨ k = 1 ∨ k = 2 := by simp [besFixed] at hk; omega
  rcases this with rfl | rfl | rfl <;> exact ⟨rfl, rfl⟩

/-- **`BeamCXLine` as the source is now**: a populate that fails at any point leaves `_target_species = None`; the next
emission is the one of a fresh model -/
theorem cxSource_failed_then_retry (c k : Nat) (hk : k < cxSource.order.length) :
    (populate cxSource (some k) (fresh c)).1.cache cxSource.guard = .empty ∧
    (run cxSource (fresh c) [.emit (some k), .emit none]).2 = [(c, .raised), (c, freshObs cxSource c)] := by
  rw [cxSource_eq_fixed] at hk ⊢; exact cxFixed_failed_then_retry c k hk

/-- **`BeamEmissionLine` as the source is now**: the same with `_rates_list` -/
theorem besSource_failed_then_retry (c k : Nat) (hk : k < besSource.order.length) :
    (populate besSource (some k) (fresh c)).1.cache besSource.guard = .empty ∧
    (run besSource (fresh c) [.emit (some k), .emit none]).2 = [(c, .raised), (c, freshObs besSource c)] := by
  rw [besSource_eq_fixed] at hk ⊢; exact besFixed_failed_then_retry c k hk

/-- **`BeamCXLine` as the source is now, all histories** (changes, emissions, provider failures at arbitrary points) -/
theorem cxSource_all_histories (c₀ : Nat) (ops : List Op) (hv : ∀ op ∈ ops, op.valid cxSource) :
    ∀ o ∈ (run cxSource (fresh c₀) ops).2, o.2 = freshObs cxSource o.1 ∨ o.2 = .raised := by
  rw [cxSource_eq_fixed] at hv ⊢; exact cxFixed_all_histories c₀ ops hv

/-- **`BeamEmissionLine` as the source is now, all histories** -/
theorem besSource_all_histories (c₀ : Nat) (ops : List Op) (hv : ∀ op ∈ ops, op.valid besSource) :
    ∀ o ∈ (run besSource (fresh c₀) ops).2, o.2 = freshObs besSource o.1 ∨ o.2 = .raised := by
  rw [besSource_eq_fixed] at hv ⊢; exact besFixed_all_histories c₀ ops hv

example : (2 : Nat) < cxSource.order.length := by decide
example : ∀ op ∈ [Op.emit (some 1), .change 4, .emit none], op.valid besSource := by
  intro op h; simp at h; rcases h with rfl | rfl | rfl <;> simp [Op.valid, besSource]

end Cherab.Props.C05Cache
