"""Rebuild /repo's Cython extensions from the current working tree (flock + per-file hash stamp)."""
import fcntl
import hashlib
import json
import os
import subprocess
import sys
import time

from .util import REPO, VERIF

# lock and stamp live with the build output of the repository they describe (git-ignored /repo/build), so that every
# copy of /verif (working tree, snapshots) serialises on the same lock and shares the same stamp
WORK = os.path.join(REPO, 'build')
STAMP = os.path.join(WORK, '.verif_build_stamp.json')
LOCK = os.path.join(WORK, '.verif_build.lock')
PY = '/venv/bin/python'


class InfraError(Exception):
    pass


def _hashes():
    out = {}
    for top in ('cherab', 'demos'):
        for root, dirs, files in os.walk(os.path.join(REPO, top)):
            for f in files:
                if f.endswith(('.pyx', '.pxd')):
                    p = os.path.join(root, f)
                    with open(p, 'rb') as fh:
                        out[os.path.relpath(p, REPO)] = hashlib.sha1(fh.read()).hexdigest()
    with open(os.path.join(REPO, 'setup.py'), 'rb') as fh:
        out['setup.py'] = hashlib.sha1(fh.read()).hexdigest()
    return out


def _so_missing(h):
    for rel in h:
        if rel.endswith('.pyx'):
            base = os.path.join(REPO, rel[:-4])
            d = os.path.dirname(base)
            stem = os.path.basename(base)
            if not any(x.startswith(stem + '.') and x.endswith('.so') for x in os.listdir(d)):
                return True
    return False


def ensure_built(log=None):
    """Returns dict(rebuilt=bool, seconds=float). Raises InfraError if the tree does not compile."""
    os.makedirs(WORK, exist_ok=True)
    t0 = time.time()
    with open(LOCK, 'w') as lk:
        fcntl.flock(lk, fcntl.LOCK_EX)
        h = _hashes()
        old = {}
        if os.path.exists(STAMP):
            try:
                old = json.load(open(STAMP))
            except Exception:
                old = {}
        changed = [k for k in h if old.get(k) != h[k]] + [k for k in old if k not in h]
        if not changed and not _so_missing(h):
            return dict(rebuilt=False, seconds=time.time() - t0, changed=[])
        args = [PY, 'setup.py', 'build_ext', '--inplace', '-j16']
        if old:
            # content changed since the last build we know of: do not rely on timestamps
            if any(c == 'setup.py' for c in changed):
                args.append('--force')
            # a changed .pxd is touched below; cythonize tracks cimport dependencies and recompiles its cimporters
            for c in changed:
                p = os.path.join(REPO, c)
                if os.path.exists(p):
                    os.utime(p, None)
        # (no stamp at all: first run on this tree -- a timestamp-based build brings it up to date)
        env = dict(os.environ)
        env.pop('VSNEVER_CHERAB_CORE_VERIF', None)
        r = subprocess.run(args, cwd=REPO, stdout=subprocess.PIPE, stderr=subprocess.STDOUT, text=True, env=env)
        if r.returncode != 0:
            if log:
                log(r.stdout[-4000:])
            raise InfraError('repo extensions do not compile:\n' + r.stdout[-3000:])
        json.dump(h, open(STAMP, 'w'))
        return dict(rebuilt=True, seconds=time.time() - t0, changed=changed[:20])


if __name__ == '__main__':
    try:
        print(ensure_built(print))
    except InfraError as e:
        print(e)
        sys.exit(2)
