"""C01 — plasma/beam/laser changes never leave stale derived state.

T  lean/Cherab/Props/C01.lean: generic invalidation theory (no_stale / stale_witness, Notifier model) +
   lean/Cherab/Props/C01Table.lean: coverage of the dependency table by the notification graph that
   harness/translators/notify_edges.py extracts from the .pyx/.py sources on every run (Gen/NotifyEdges.lean)
K  the generated graph is validated against the running code: for every mutator the set of caches the model says
   are cleared must equal the set observed to refill on real scenes (refills are visible through counting mock
   providers / new material objects), and hand-written deps are validated by perturbation
S  real history vs. scene built from scratch in the final configuration (spectra on 4 sight lines, beam density,
   direction, bounding boxes, z_eff, exception kind); failing histories are shrunk to a minimal op sequence.
"""
import copy
import json
import math
import os

from harness.vlib.util import close, exc_kind, VERIF

BASE = dict(
    mid_transform=('t', 0.0, 0.0, 0.0), alt_transform=('c', ('t', 0.05, -0.02, 0.03), ('rz', 7.0)),
    plasma=dict(parent='mid', transform=None, b_field=(0.0, 0.0, 1.0),
                electrons=dict(n=5e19, t=1000., v=(0, 0, 0), gn=(0.1, 0, 0), gt=(0, 0.1, 0)),
                composition=[dict(el='D', q=1, n=4e19, t=900., v=(1e4, 0, 0), gn=(0.1, 0.05, 0), gt=(0, 0, 0.1)),
                             dict(el='D', q=0, n=1e17, t=10., v=(0, 0, 0), gn=(0, 0, 0), gt=(0, 0, 0)),
                             dict(el='C', q=6, n=1e18, t=800., v=(0, 2e4, 0), gn=(0, 0.1, 0), gt=(0, 0, 0)),
                             dict(el='C', q=5, n=1e17, t=800., v=(0, 2e4, 0), gn=(0, 0.1, 0), gt=(0, 0, 0))],
                atomic_data='A', geometry=('box', 1.0, 1.0, 1.0), geometry_transform='none', integrator_step=0.1,
                models=[('exc', ('C', 5, (8, 7))), ('rec', ('C', 5, (8, 7))), ('tcx', ('C', 5, (8, 7))), ('brems',), ('trp', 'C', 5)]),
    plasma2=dict(transform=('t', 0.0, 0.0, -2.6), b_field=(0.0, 0.3, 1.0),
                 electrons=dict(n=3e19, t=600., v=(0, 0, 0), gn=(0, 0.1, 0), gt=(0.1, 0, 0)),
                 composition=[dict(el='D', q=1, n=2.5e19, t=650., v=(0, 1e4, 0), gn=(0, 0.1, 0), gt=(0, 0, 0)),
                              dict(el='D', q=0, n=3e17, t=8., v=(0, 0, 0), gn=(0, 0, 0), gt=(0, 0, 0)),
                              dict(el='C', q=6, n=1.5e18, t=620., v=(0, 0, 1e4), gn=(0.1, 0, 0), gt=(0, 0, 0)),
                              dict(el='C', q=5, n=2e17, t=610., v=(0, 0, 0), gn=(0, 0, 0.1), gt=(0, 0, 0))],
                 atomic_data='B', geometry=('box', 0.8, 0.8, 0.8), integrator_step=0.1,
                 models=[('brems',), ('exc', ('C', 5, (8, 7)))]),
    pm_pool=[('exc', ('C', 5, (8, 7))), ('rec', ('C', 5, (8, 7))), ('tcx', ('C', 5, (8, 7))), ('brems',), ('trp', 'C', 5)],
    bm_pool=[('bcx', ('C', 5, (8, 7))), ('bem', ('D', 0, (3, 2)))],
    beam=dict(parent='mid', plasma='p', transform=('c', ('t', 0, 0, -1.5), ('rx', 3.0)), atomic_data='A',
              att_ref=None, att_pool=[dict(step=0.05, clamp_to_zero=True, clamp_sigma=4.0), dict(step=0.03, clamp_to_zero=True, clamp_sigma=3.0),
                                      dict(step=0.11, clamp_to_zero=False, clamp_sigma=5.0)], energy=60000., power=1e6,
              temperature=10., element='D', sigma=0.05, divergence_x=0.5, divergence_y=0.5, length=3.0,
              attenuator=dict(step=0.05, clamp_to_zero=True, clamp_sigma=4.0), integrator_step=0.05,
              models=[('bcx', ('C', 5, (8, 7))), ('bem', ('D', 0, (3, 2)))]),
    laser=dict(parent='mid', plasma='p', transform=('c', ('t', 0, 0.2, -1.0), ('ry', 2.0)), importance=1.0, spectrum=('const', 531., 533., 3),
               profile=('uniform', 1e3, 2.0, 0.05), integrator_step=0.05, models=1))

BARE = copy.deepcopy(BASE)
BARE['plasma']['models'] = []
BARE['beam']['models'] = []
BARE['laser']['models'] = 0

TRANSFORMS = [None, ('t', 0.1, 0.0, 0.0), ('t', 0.0, -0.15, 0.1), ('rz', 20.0), ('rx', 5.0), ('c', ('t', 0.05, 0.05, -0.1), ('ry', 4.0))]
BEAM_TR = [('c', ('t', 0, 0, -1.5), ('rx', 3.0)), ('c', ('t', 0.1, 0, -1.4), ('rx', -2.0)), ('c', ('t', 0, 0.1, -1.6), ('ry', 3.0)), ('t', 0.05, 0.05, -1.5)]
LASER_TR = [('c', ('t', 0, 0.2, -1.0), ('ry', 2.0)), ('c', ('t', 0.1, 0.1, -1.0), ('rx', 2.0)), ('t', -0.1, 0.0, -0.9)]
COMPS = [BASE['plasma']['composition'],
         [dict(el='D', q=1, n=3e19, t=700., v=(0, 1e4, 0), gn=(0, 0.1, 0), gt=(0, 0, 0)),
          dict(el='C', q=6, n=2e18, t=600., v=(0, 0, 1e4), gn=(0.1, 0, 0), gt=(0, 0, 0)),
          dict(el='C', q=5, n=3e17, t=500., v=(0, 0, 0), gn=(0, 0, 0.1), gt=(0, 0, 0)),
          dict(el='D', q=0, n=2e17, t=5., v=(0, 0, 0), gn=(0, 0, 0), gt=(0, 0, 0))],
         [dict(el='D', q=1, n=4e19, t=900., v=(1e4, 0, 0), gn=(0.1, 0.05, 0), gt=(0, 0, 0.1)),
          dict(el='D', q=0, n=1e17, t=10., v=(0, 0, 0), gn=(0, 0, 0), gt=(0, 0, 0)),
          dict(el='C', q=6, n=1e18, t=800., v=(0, 2e4, 0), gn=(0, 0.1, 0), gt=(0, 0, 0)),
          dict(el='C', q=5, n=1e17, t=800., v=(0, 2e4, 0), gn=(0, 0.1, 0), gt=(0, 0, 0)),
          dict(el='He', q=2, n=5e17, t=850., v=(0, 0, 0), gn=(0, 0, 0), gt=(0, 0, 0))]]
COMPS.append([dict(el='D', q=1, n=4e19, t=900., v=(1e4, 0, 0), gn=(0.1, 0.05, 0), gt=(0, 0, 0.1)),
              dict(el='D', q=0, n=1e17, t=10., v=(0, 0, 0), gn=(0, 0, 0), gt=(0, 0, 0)),
              dict(el='C', q=6, n=1e18, t=800., v=(0, 2e4, 0), gn=(0, 0.1, 0, 'hole'), gt=(0, 0, 0)),
              dict(el='C', q=5, n=1e17, t=800., v=(0, 2e4, 0), gn=(0, 0.1, 0, 'hole'), gt=(0, 0, 0)),
              dict(el='Ne', q=10, n=3e18, t=850., v=(0, 0, 0), gn=(0, 0, 0.1, 'hole'), gt=(0, 0, 0))])
EXTRA_SPECIES = [dict(el='Ne', q=10, n=2e17, t=700., v=(0, 0, 0), gn=(0, 0.1, 0), gt=(0, 0, 0)),
                 dict(el='C', q=5, n=4e17, t=650., v=(0, 1e4, 0), gn=(0, 0, 0), gt=(0, 0, 0))]
PMODELS = [BASE['plasma']['models'], [('exc', ('C', 5, (8, 7)))], [('rec', ('C', 5, (8, 7))), ('brems',)],
           [('tcx', ('C', 5, (8, 7))), ('trp', 'C', 5)], [('brems',)], []]
BMODELS = [BASE['beam']['models'], [('bcx', ('C', 5, (8, 7)))], [('bem', ('D', 0, (3, 2)))], []]
GEOMS = [('box', 1.0, 1.0, 1.0), ('sphere', 0.9), ('cyl', 0.8, 1.6), ('box', 0.6, 1.2, 0.9)]


NOARG = ('beam.plasma', 'laser.plasma', 'laser.laser_profile(same-object)', 'laser.laser_spectrum(same-object)',
         'beam.attenuator(same-object)', 'plasma.atomic_data(same-object)')


ALWAYS_PAIRED = NOARG + ('beam.plasma(switch)', 'laser.plasma(switch)', 'beam.attenuator(pool-object)')


def _other(rng, pool, cur):
    c = [p for p in pool if p != cur]
    return copy.deepcopy(rng.choice(c))


def _scale(rng, cur, lo, hi):
    v = cur * rng.choice([0.5, 0.8, 1.25, 2.0])
    return min(max(v, lo), hi) if lo <= min(max(v, lo), hi) != cur else (lo + hi) / 2 * (1.1 if cur != (lo + hi) / 2 * 1.1 else 0.9)


# ---- mutators: name -> (section, value generator(rng, cfg), live action(L, v, S)) ---------------------------------------
def mutators(S):
    from raysect.core import Vector3D
    from raysect.optical.material.emitter.inhomogeneous import NumericalIntegrator
    M = {}

    def reg(name, gen, act, upd):
        M[name] = (gen, act, upd)

    def setc(*path):
        def f(cfg, v):
            d = cfg
            for k in path[:-1]:
                d = d[k]
            d[path[-1]] = v
        return f

    P, B, La = 'plasma', 'beam', 'laser'
    # plasma
    reg('plasma.b_field', lambda r, c: _other(r, [(0, 0, 1.0), (0.5, 0, 1.0), (0, 2.0, 0.5), (0, 0, 0)], tuple(c[P]['b_field'])),
        lambda L, v: setattr(L.plasma, 'b_field', Vector3D(*v)), setc(P, 'b_field'))
    reg('plasma.electron_distribution',
        lambda r, c: dict(c[P]['electrons'], n=_scale(r, c[P]['electrons']['n'], 1e19, 1e20), t=_scale(r, c[P]['electrons']['t'], 200., 4000.)),
        lambda L, v: setattr(L.plasma, 'electron_distribution', S.distribution(v, S.ELECTRON_REST_MASS)), setc(P, 'electrons'))
    reg('plasma.composition', lambda r, c: _other(r, COMPS, c[P]['composition']),
        lambda L, v: setattr(L.plasma, 'composition', S.species_list(v)), setc(P, 'composition'))
    reg('plasma.composition.add', lambda r, c: copy.deepcopy(r.choice(EXTRA_SPECIES)),
        lambda L, v: L.plasma.composition.add(S.species_list([v])[0]),
        lambda cfg, v: cfg[P].__setitem__('composition', [s for s in cfg[P]['composition'] if (s['el'], s['q']) != (v['el'], v['q'])] + [v]))
    reg('plasma.composition.set', lambda r, c: _other(r, COMPS, c[P]['composition']),
        lambda L, v: L.plasma.composition.set(S.species_list(v)), setc(P, 'composition'))
    reg('plasma.atomic_data', lambda r, c: 'B' if c[P]['atomic_data'] == 'A' else 'A',
        lambda L, v: setattr(L.plasma, 'atomic_data', L.data[v]), setc(P, 'atomic_data'))
    reg('plasma.geometry', lambda r, c: _other(r, GEOMS, tuple(c[P]['geometry'])),
        lambda L, v: setattr(L.plasma, 'geometry', S.geometry(v)), setc(P, 'geometry'))
    # 'none' = no geometry transform (None is reserved for "generator has no value to offer")
    reg('plasma.geometry_transform', lambda r, c: _other(r, ['none'] + TRANSFORMS[1:], c[P]['geometry_transform']),
        lambda L, v: setattr(L.plasma, 'geometry_transform', S.mat(v) if v != 'none' else None), setc(P, 'geometry_transform'))
    reg('plasma.integrator', lambda r, c: _other(r, [0.1, 0.07, 0.05], c[P]['integrator_step']),
        lambda L, v: setattr(L.plasma, 'integrator', NumericalIntegrator(step=v)), setc(P, 'integrator_step'))
    reg('plasma.models', lambda r, c: _other(r, PMODELS, c[P]['models']),
        lambda L, v: setattr(L.plasma, 'models', [S.plasma_model(m) for m in v]), setc(P, 'models'))
    reg('plasma.models.add', lambda r, c: r.choice([('exc', ('C', 5, (8, 7))), ('brems',), ('trp', 'C', 5)]),
        lambda L, v: L.plasma.models.add(S.plasma_model(v)), lambda cfg, v: cfg[P]['models'].append(v))
    reg('plasma.models.set', lambda r, c: _other(r, PMODELS, c[P]['models']),
        lambda L, v: L.plasma.models.set([S.plasma_model(m) for m in v]), setc(P, 'models'))
    reg('plasma.transform', lambda r, c: _other(r, TRANSFORMS, c[P]['transform']),
        lambda L, v: setattr(L.plasma, 'transform', S.mat(v)), setc(P, 'transform'))
    reg('plasma.parent', lambda r, c: 'alt' if c[P]['parent'] == 'mid' else 'mid',
        lambda L, v: setattr(L.plasma, 'parent', L.mid if v == 'mid' else L.alt), setc(P, 'parent'))
    reg('ancestor.transform', lambda r, c: _other(r, TRANSFORMS[1:], c['mid_transform']),
        lambda L, v: setattr(L.mid, 'transform', S.mat(v)), setc('mid_transform'))
    # beam
    for nm, lo, hi in (('energy', 2e4, 1.2e5), ('power', 1e5, 5e6), ('temperature', 1., 100.), ('sigma', 0.02, 0.12),
                       ('length', 1.0, 4.0)):
        reg('beam.' + nm, (lambda nm, lo, hi: lambda r, c: _scale(r, c[B][nm], lo, hi))(nm, lo, hi),
            (lambda nm: lambda L, v: setattr(L.beam, nm, v))(nm), setc(B, nm))
    for nm in ('divergence_x', 'divergence_y'):
        reg('beam.' + nm, (lambda nm: lambda r, c: _other(r, [0.0, 0.5, 1.0, 2.5], c[B][nm]))(nm),
            (lambda nm: lambda L, v: setattr(L.beam, nm, v))(nm), setc(B, nm))
    reg('beam.element', lambda r, c: 'H' if c[B]['element'] == 'D' else 'D',
        lambda L, v: setattr(L.beam, 'element', S.ELEMS[v]), setc(B, 'element'))
    reg('beam.atomic_data', lambda r, c: 'B' if c[B]['atomic_data'] == 'A' else 'A',
        lambda L, v: setattr(L.beam, 'atomic_data', L.data[v]), setc(B, 'atomic_data'))
    reg('beam.plasma', lambda r, c: None, lambda L, v: setattr(L.beam, 'plasma', L.beam.plasma), lambda cfg, v: None)
    # two plasmas in one world: the beam / laser is moved from one to the other, and either plasma is then changed
    reg('beam.plasma(switch)', lambda r, c: 'q' if c[B].get('plasma', 'p') == 'p' else 'p',
        lambda L, v: setattr(L.beam, 'plasma', L.plasma2 if v == 'q' else L.plasma), setc(B, 'plasma'))
    reg('laser.plasma(switch)', lambda r, c: 'q' if c[La].get('plasma', 'p') == 'p' else 'p',
        lambda L, v: setattr(L.laser, 'plasma', L.plasma2 if v == 'q' else L.plasma), setc(La, 'plasma'))
    Q = 'plasma2'
    reg('plasma2.b_field', lambda r, c: _other(r, [(0, 0.3, 1.0), (0.5, 0, 1.0), (0, 2.0, 0.5)], tuple(c[Q]['b_field'])),
        lambda L, v: setattr(L.plasma2, 'b_field', Vector3D(*v)), setc(Q, 'b_field'))
    reg('plasma2.electron_distribution',
        lambda r, c: dict(c[Q]['electrons'], n=_scale(r, c[Q]['electrons']['n'], 1e19, 1e20), t=_scale(r, c[Q]['electrons']['t'], 200., 4000.)),
        lambda L, v: setattr(L.plasma2, 'electron_distribution', S.distribution(v, S.ELECTRON_REST_MASS)), setc(Q, 'electrons'))
    reg('plasma2.composition', lambda r, c: _other(r, COMPS, c[Q]['composition']),
        lambda L, v: setattr(L.plasma2, 'composition', S.species_list(v)), setc(Q, 'composition'))
    reg('plasma2.composition.add', lambda r, c: copy.deepcopy(r.choice(EXTRA_SPECIES)),
        lambda L, v: L.plasma2.composition.add(S.species_list([v])[0]),
        lambda cfg, v: cfg[Q].__setitem__('composition', [s for s in cfg[Q]['composition'] if (s['el'], s['q']) != (v['el'], v['q'])] + [v]))
    reg('plasma2.atomic_data', lambda r, c: 'B' if c[Q]['atomic_data'] == 'A' else 'A',
        lambda L, v: setattr(L.plasma2, 'atomic_data', L.data[v]), setc(Q, 'atomic_data'))
    reg('plasma2.transform', lambda r, c: _other(r, [('t', 0.0, 0.0, -2.6), ('t', 0.05, 0.0, -2.7), ('c', ('t', 0.0, 0.0, -2.6), ('rz', 15.0))], c[Q]['transform']),
        lambda L, v: setattr(L.plasma2, 'transform', S.mat(v)), setc(Q, 'transform'))
    def _att_fresh_upd(cfg, v):
        cfg[B]['attenuator'] = v
        cfg[B]['att_ref'] = None

    def _att_inplace_upd(field):
        def f(cfg, v):
            cfg[B]['attenuator'][field] = v
            if cfg[B].get('att_ref') is not None:          # the installed attenuator is a pool object: it keeps the change
                cfg[B]['att_pool'][cfg[B]['att_ref']][field] = v
        return f
    reg('beam.attenuator', lambda r, c: dict(step=_other(r, [0.05, 0.03, 0.11], c[B]['attenuator']['step']),
                                             clamp_to_zero=r.random() < 0.7, clamp_sigma=r.choice([3.0, 4.0, 5.0])),
        lambda L, v: setattr(L.beam, 'attenuator', S.attenuator(v)), _att_fresh_upd)
    reg('beam.attenuator.step', lambda r, c: _other(r, [0.05, 0.03, 0.11, 0.2], c[B]['attenuator']['step']),
        lambda L, v: setattr(L.beam.attenuator, 'step', v), _att_inplace_upd('step'))
    reg('beam.attenuator.clamp_sigma', lambda r, c: _other(r, [2.0, 3.0, 4.0, 5.0], c[B]['attenuator']['clamp_sigma']),
        lambda L, v: setattr(L.beam.attenuator, 'clamp_sigma', v), _att_inplace_upd('clamp_sigma'))

    # persistent objects: swapped out and later swapped back (the same object returns, with whatever it cached meanwhile)
    def _att_pool_upd(cfg, v):
        cfg[B]['attenuator'] = copy.deepcopy(cfg[B]['att_pool'][v])
        cfg[B]['att_ref'] = v
    reg('beam.attenuator(pool-object)', lambda r, c: _other(r, [0, 1, 2], c[B].get('att_ref')),
        lambda L, v: setattr(L.beam, 'attenuator', L.att_pool[v]), _att_pool_upd)
    reg('plasma.models(pool-objects)', lambda r, c: sorted(r.sample(range(5), r.randint(1, 4))),
        lambda L, v: setattr(L.plasma, 'models', [L.pm_pool[i] for i in v]),
        lambda cfg, v: cfg[P].__setitem__('models', [cfg['pm_pool'][i] for i in v]))
    reg('beam.models(pool-objects)', lambda r, c: sorted(r.sample(range(2), r.randint(1, 2))),
        lambda L, v: setattr(L.beam, 'models', [L.bm_pool[i] for i in v]),
        lambda cfg, v: cfg[B].__setitem__('models', [cfg['bm_pool'][i] for i in v]))
    reg('beam.models', lambda r, c: _other(r, BMODELS, c[B]['models']),
        lambda L, v: setattr(L.beam, 'models', [S.beam_model(m) for m in v]), setc(B, 'models'))
    reg('beam.models.add', lambda r, c: r.choice([('bcx', ('C', 5, (8, 7))), ('bem', ('D', 0, (3, 2)))]),
        lambda L, v: L.beam.models.add(S.beam_model(v)), lambda cfg, v: cfg[B]['models'].append(v))
    # line of an attached beam model (public setter on BeamCXLine / BeamEmissionLine)
    def _line_gen(kind, pool):
        def g(r, c):
            ms = c[B]['models']
            idx = [i for i, m in enumerate(ms) if m[0] == kind]
            if not idx or c[B].get('models_pool'):
                return None                   # (pool model objects keep their line: the pool description stays valid)
            i = idx[0]
            cur = ms[i][1]
            cand = [l for l in pool if (l[0], l[1], tuple(l[2])) != (cur[0], cur[1], tuple(cur[2]))]
            return (i, r.choice(cand))
        return g

    def _line_act(L, v):
        list(L.beam.models)[v[0]].line = S.line_of(v[1])

    def _line_upd(cfg, v):
        m = list(cfg[B]['models'][v[0]])
        m[1] = v[1]
        cfg[B]['models'][v[0]] = tuple(m)
    reg('beam.model(bcx).line', _line_gen('bcx', [('C', 5, (8, 7)), ('C', 5, (7, 6)), ('Ne', 9, (11, 10))]), _line_act, _line_upd)
    # (BeamEmissionLine accepts Balmer-alpha only, so its line setter has no second legal value)

    # aliasing: the caller keeps and later mutates the list it assigned -- the scene must not follow
    def _alias_models_act(L, v):
        lst = [S.plasma_model(m) for m in v]
        L.plasma.models = lst
        lst.append(S.plasma_model(('brems',)))
        del lst[0]
    reg('plasma.models(then-mutate-caller-list)', lambda r, c: _other(r, PMODELS, c[P]['models']), _alias_models_act, setc(P, 'models'))

    def _alias_comp_act(L, v):
        lst = S.species_list(v)
        L.plasma.composition = lst
        lst.pop()
        lst.reverse()
    reg('plasma.composition(then-mutate-caller-list)', lambda r, c: _other(r, COMPS, c[P]['composition']), _alias_comp_act, setc(P, 'composition'))

    def _alias_bmodels_act(L, v):
        lst = [S.beam_model(m) for m in v]
        L.beam.models = lst
        lst.append(S.beam_model(('bcx', ('C', 5, (8, 7)))))
        del lst[0]
    reg('beam.models(then-mutate-caller-list)', lambda r, c: _other(r, BMODELS, c[B]['models']), _alias_bmodels_act, setc(B, 'models'))

    # clear() of the three managers named by the property
    reg('plasma.models.clear', lambda r, c: 0 if c[P]['models'] else None, lambda L, v: L.plasma.models.clear(), lambda cfg, v: cfg[P].__setitem__('models', []))
    reg('beam.models.clear', lambda r, c: 0 if c[B]['models'] else None, lambda L, v: L.beam.models.clear(), lambda cfg, v: cfg[B].__setitem__('models', []))
    reg('plasma.composition.clear', lambda r, c: 0 if c[P]['composition'] else None, lambda L, v: L.plasma.composition.clear(),
        lambda cfg, v: cfg[P].__setitem__('composition', []))
    reg('plasma2.composition.clear', lambda r, c: 0 if c[Q]['composition'] else None, lambda L, v: L.plasma2.composition.clear(),
        lambda cfg, v: cfg[Q].__setitem__('composition', []))

    # the integrator objects are public and mutable: a step changed in place must be seen by the materials built earlier
    reg('plasma.integrator.step(in-place)', lambda r, c: _other(r, [0.1, 0.07, 0.05], c[P]['integrator_step']),
        lambda L, v: setattr(L.plasma.integrator, 'step', v), setc(P, 'integrator_step'))
    reg('beam.integrator.step(in-place)', lambda r, c: _other(r, [0.05, 0.04, 0.08], c[B]['integrator_step']),
        lambda L, v: setattr(L.beam.integrator, 'step', v), setc(B, 'integrator_step'))
    reg('laser.integrator.step(in-place)', lambda r, c: _other(r, [0.05, 0.04, 0.08], c[La]['integrator_step']),
        lambda L, v: setattr(L.laser.integrator, 'step', v), setc(La, 'integrator_step'))

    # other legal container types for the same assignments
    reg('plasma.composition(tuple)', lambda r, c: _other(r, COMPS, c[P]['composition']),
        lambda L, v: setattr(L.plasma, 'composition', tuple(S.species_list(v))), setc(P, 'composition'))
    reg('plasma.models(generator)', lambda r, c: _other(r, PMODELS, c[P]['models']),
        lambda L, v: setattr(L.plasma, 'models', (S.plasma_model(m) for m in v)), setc(P, 'models'))
    reg('beam.models(tuple)', lambda r, c: _other(r, BMODELS, c[B]['models']),
        lambda L, v: setattr(L.beam, 'models', tuple(S.beam_model(m) for m in v)), setc(B, 'models'))

    # rejected changes: the call must raise and leave the scene exactly as it was
    def _rej(fn):
        def act(L, v):
            try:
                fn(L)
            except Exception:  # noqa  (the rejection itself is expected; what matters is the state afterwards)
                return
            raise AssertionError('invalid assignment was accepted')
        return act
    reg('rejected:plasma.composition=[species,junk]', lambda r, c: 0,
        _rej(lambda L: setattr(L.plasma, 'composition', S.species_list(COMPS[1])[:2] + ['junk'])), lambda cfg, v: None)
    reg('rejected:plasma.composition.add(None)', lambda r, c: 0, _rej(lambda L: L.plasma.composition.add(None)), lambda cfg, v: None)
    reg('rejected:plasma.models=[model,junk]', lambda r, c: 0,
        _rej(lambda L: setattr(L.plasma, 'models', [S.plasma_model(('brems',)), 'junk'])), lambda cfg, v: None)
    reg('rejected:beam.energy=-1', lambda r, c: 0, _rej(lambda L: setattr(L.beam, 'energy', -1.0)), lambda cfg, v: None)
    reg('rejected:beam.length=0', lambda r, c: 0, _rej(lambda L: setattr(L.beam, 'length', 0.0)), lambda cfg, v: None)
    reg('rejected:beam.sigma=-1', lambda r, c: 0, _rej(lambda L: setattr(L.beam, 'sigma', -1.0)), lambda cfg, v: None)
    reg('rejected:beam.models=[model,junk]', lambda r, c: 0,
        _rej(lambda L: setattr(L.beam, 'models', [S.beam_model(('bcx', ('C', 5, (8, 7)))), 'junk'])), lambda cfg, v: None)
    reg('rejected:beam.attenuator.step=0', lambda r, c: 0, _rej(lambda L: setattr(L.beam.attenuator, 'step', 0.0)), lambda cfg, v: None)
    reg('rejected:laser.models=[junk]', lambda r, c: 0, _rej(lambda L: setattr(L.laser, 'models', ['junk'])), lambda cfg, v: None)

    reg('beam.integrator', lambda r, c: _other(r, [0.05, 0.04, 0.08], c[B]['integrator_step']),
        lambda L, v: setattr(L.beam, 'integrator', NumericalIntegrator(step=v)), setc(B, 'integrator_step'))
    reg('beam.transform', lambda r, c: _other(r, BEAM_TR, c[B]['transform']),
        lambda L, v: setattr(L.beam, 'transform', S.mat(v)), setc(B, 'transform'))
    reg('beam.parent', lambda r, c: _other(r, ['mid', 'alt', 'plasma'], c[B]['parent']),
        lambda L, v: setattr(L.beam, 'parent', S.parent_of(L, v)), setc(B, 'parent'))
    # laser
    reg('laser.importance', lambda r, c: _other(r, [1.0, 2.0, 0.5], c[La]['importance']),
        lambda L, v: setattr(L.laser, 'importance', v), setc(La, 'importance'))
    reg('laser.laser_spectrum', lambda r, c: _other(r, [('const', 531., 533., 3), ('const', 530., 534., 5), ('gauss', 529., 535., 6, 532., 0.6)], tuple(c[La]['spectrum'])),
        lambda L, v: setattr(L.laser, 'laser_spectrum', S.laser_spectrum(v)), setc(La, 'spectrum'))
    reg('laser.laser_profile', lambda r, c: _other(r, [('uniform', 1e3, 2.0, 0.05), ('uniform', 2e3, 1.5, 0.08), ('cbg', 1.0, 1e-8, 0.06, 2.0, 0.02, 0.03)], tuple(c[La]['profile'])),
        lambda L, v: setattr(L.laser, 'laser_profile', S.laser_profile(v)), setc(La, 'profile'))
    reg('laser.laser_profile(same-object)', lambda r, c: None, lambda L, v: setattr(L.laser, 'laser_profile', L.laser.laser_profile), lambda cfg, v: None)
    reg('laser.laser_spectrum(same-object)', lambda r, c: None, lambda L, v: setattr(L.laser, 'laser_spectrum', L.laser.laser_spectrum), lambda cfg, v: None)
    reg('beam.attenuator(same-object)', lambda r, c: None, lambda L, v: setattr(L.beam, 'attenuator', L.beam.attenuator), lambda cfg, v: None)
    reg('plasma.atomic_data(same-object)', lambda r, c: None, lambda L, v: setattr(L.plasma, 'atomic_data', L.plasma.atomic_data), lambda cfg, v: None)
    reg('laser.plasma', lambda r, c: None, lambda L, v: setattr(L.laser, 'plasma', L.laser.plasma), lambda cfg, v: None)
    reg('laser.models', lambda r, c: _other(r, [0, 1, 2], c[La]['models']),
        lambda L, v: setattr(L.laser, 'models', [S.SeldenMatobaThomsonSpectrum() for _ in range(v)]), setc(La, 'models'))
    reg('laser.integrator', lambda r, c: _other(r, [0.05, 0.04, 0.08], c[La]['integrator_step']),
        lambda L, v: setattr(L.laser, 'integrator', NumericalIntegrator(step=v)), setc(La, 'integrator_step'))
    reg('laser.transform', lambda r, c: _other(r, LASER_TR, c[La]['transform']),
        lambda L, v: setattr(L.laser, 'transform', S.mat(v)), setc(La, 'transform'))
    reg('laser.parent', lambda r, c: _other(r, ['mid', 'alt', 'plasma', 'beam'], c[La]['parent']),
        lambda L, v: setattr(L.laser, 'parent', S.parent_of(L, v)), setc(La, 'parent'))

    def prof_set(attr, idx):
        def act(L, v):
            setattr(L.laser.laser_profile, attr, v)
        def upd(cfg, v):
            p = list(cfg[La]['profile']); p[idx] = v; cfg[La]['profile'] = tuple(p)
        return act, upd
    a, u = prof_set('laser_length', 2)
    reg('laser.profile.laser_length', lambda r, c: _other(r, [2.0, 1.5, 2.4], c[La]['profile'][2]) if c[La]['profile'][0] == 'uniform' else None, a, u)
    a, u = prof_set('laser_radius', 3)
    reg('laser.profile.laser_radius', lambda r, c: _other(r, [0.05, 0.08, 0.03], c[La]['profile'][3]) if c[La]['profile'][0] == 'uniform' else None, a, u)
    a, u = prof_set('energy_density', 1)
    reg('laser.profile.energy_density', lambda r, c: _other(r, [1e3, 2e3, 5e2], c[La]['profile'][1]) if c[La]['profile'][0] == 'uniform' else None, a, u)
    # bookkeeping: are pool model objects attached to the beam?  (set by the pool mutator, cleared by every other replacement)
    for nm in list(M):
        if nm.startswith('beam.models') and nm not in ('beam.models.add',):
            g_, a_, u_ = M[nm]
            flag = nm == 'beam.models(pool-objects)'
            M[nm] = (g_, a_, (lambda u_, flag: lambda cfg, v: (u_(cfg, v), cfg[B].__setitem__('models_pool', flag))[0])(u_, flag))
    return M


def run_history(S, M, cfg0, hist):
    """hist: list of ('obs',) | (name, value).  returns (final cfg, status, observation, events)"""
    cfg = copy.deepcopy(cfg0)
    L = S.build(cfg)
    events = []
    for op in hist:
        if op[0] == 'obs':
            S.observe(L)
            continue
        gen, act, upd = M[op[0]]
        try:
            act(L, copy.deepcopy(op[1]))
            upd(cfg, copy.deepcopy(op[1]))
        except Exception as e:  # noqa
            events.append((op[0], exc_kind(e), str(e)[:160]))
            return cfg, 'raised', None, events, L
    st, o = S.observe(L)
    return cfg, st, o, events, L


def differs(a, b):
    (sa, oa), (sb, ob) = a, b
    if sa != sb:
        return 'status %s vs %s (%s / %s)' % (sa, sb, str(oa)[:100], str(ob)[:100])
    if sa != 'ok':
        return None
    if len(oa) != len(ob):
        return 'length %d vs %d' % (len(oa), len(ob))
    for i, (x, y) in enumerate(zip(oa, ob)):
        if not close(x, y, 1e-9, 1e-300):
            return 'observable #%d: history %r vs fresh %r' % (i, x, y)
    return None


def check_history(S, M, cfg0, hist):
    """None if the property holds on this history, else a description"""
    cfg, st, o, events, L = run_history(S, M, cfg0, hist)
    if st == 'raised':
        ev = events[-1]
        return 'mutator %s raised %s: %s' % ev
    fst, fo = S.observe(S.build(cfg), order=list(reversed(range(len(S.SIGHTS)))))      # evaluation order must not matter either
    return differs((st, o), (fst, fo))


def shrink(S, M, cfg0, hist):
    cur = list(hist)
    changed = True
    while changed:
        changed = False
        for i in range(len(cur)):
            cand = cur[:i] + cur[i + 1:]
            try:
                if check_history(S, M, cfg0, cand):
                    cur = cand
                    changed = True
                    break
            except Exception:
                pass
    return cur


def signature(hist, why):
    kind = 'raises' if why.startswith('mutator') else 'stale'
    return 'C01:%s:%s' % (kind, '>'.join(op[0] for op in hist))


def gen_history(rng, M, cfg0, names, length, obs_p=0.4):
    cfg = copy.deepcopy(cfg0)
    hist = []
    for _ in range(length):
        if rng.random() < obs_p:
            hist.append(('obs',))
            continue
        for _try in range(5):
            nm = rng.choice(names)
            gen, act, upd = M[nm]
            v = gen(rng, cfg)
            if nm in NOARG or v is not None:
                break
        else:
            continue
        hist.append((nm, v))
        upd(cfg, copy.deepcopy(v))
    return hist


def search(ctx, S, M):
    names = sorted(M)
    found = {}

    def test(hist, origin, base=None):
        base_name = 'BARE' if base is BARE else 'BASE'
        base = base or BASE
        ctx.case(key=tuple(op[0] for op in hist), sample=dict(history=[list(map(str, op)) for op in hist]) if ctx.rng.random() < 0.02 else None)
        ctx.count('history-len-%d' % len(hist))
        try:
            why = check_history(S, M, base, hist)
        except Exception as e:  # noqa
            why = 'harness could not evaluate: %s %s' % (exc_kind(e), e)
            ctx.count('unevaluable')
            return
        if why:
            small = shrink(S, M, base, hist)
            why2 = check_history(S, M, base, small) or why
            sig = signature(small, why2) + ('@bare' if base is BARE else '')
            if sig not in found:
                found[sig] = (small, why2)
                ctx.fail(sig, why2, dict(history=small, base=base_name, origin=origin))

    # corpus first
    cdir = os.path.join(VERIF, 'corpus', 'C01')
    if os.path.isdir(cdir):
        for f in sorted(os.listdir(cdir)):
            cj = json.load(open(os.path.join(cdir, f)))
            test([tuple(_detuple(op)) for op in cj['history']], 'corpus/' + f, BARE if cj.get('base') == 'BARE' else None)
    # exhaustive: every single mutator, with and without a prior observation; every ordered pair (obs between)
    singles = []
    for nm in names:
        gen, act, upd = M[nm]
        v = gen(ctx.rng, BASE)
        if v is None and nm not in NOARG:
            continue
        singles.append((nm, v))
        test([(nm, v)], 'single')
        if nm not in ('plasma.models.add', 'beam.models.add'):
            vb = gen(ctx.rng, BARE)
            if vb is not None or nm in NOARG:
                test([(nm, vb), ('plasma.models', PMODELS[0]), ('beam.models', BMODELS[0]), ('laser.models', 1)], 'bare-single', BARE)
        test([('obs',), (nm, v)], 'obs-single')
    pairs = 0
    for a in singles:
        # the same mutator twice: change, observe, change again (back to the original value where the pool allows it)
        if a[0] not in NOARG:
            cfg = copy.deepcopy(BASE)
            M[a[0]][2](cfg, copy.deepcopy(a[1]))
            seen2 = set()
            for _rep in range(14):              # the value pools are small: this enumerates them (incl. 'back to the original')
                v2 = M[a[0]][0](ctx.rng, cfg)
                if v2 is not None and repr(v2) not in seen2 and len(seen2) < 5:
                    seen2.add(repr(v2))
                    test([('obs',), a, ('obs',), (a[0], v2)], 'same-twice')
    # swap a persistent object out, change anything, swap the SAME object back: it must not come back stale
    swaps = [(('beam.attenuator(pool-object)', 0), ('beam.attenuator(pool-object)', 1)),
             (('plasma.models(pool-objects)', [0, 1, 2, 3, 4]), ('plasma.models(pool-objects)', [3])),
             (('beam.models(pool-objects)', [0, 1]), ('beam.models(pool-objects)', [1]))]
    for a in singles:
        if a[0].startswith('rejected:') or a[0] in NOARG:
            continue
        for first, other in swaps:
            if a[0] == first[0]:
                continue
            if ctx.tier == 'quick' and first[0] != 'beam.attenuator(pool-object)' and ctx.rng.random() > 0.5:
                continue
            cfg = copy.deepcopy(BASE)
            M[first[0]][2](cfg, copy.deepcopy(first[1]))
            M[other[0]][2](cfg, copy.deepcopy(other[1]))
            va = M[a[0]][0](ctx.rng, cfg)              # a value that is legal in the configuration it is applied to
            if va is None:
                continue
            test([first, ('obs',), other, (a[0], va), first], 'swap-out-change-swap-back')
    for a in singles:
        for b in singles:
            if a[0] == b[0]:
                continue
            # re-assignments of the object already installed and plasma switches silently drop or keep subscriptions:
            # what follows (or precedes) them is always enumerated; the other ordered pairs are sampled at quick
            if ctx.tier == 'quick' and not (a[0] in ALWAYS_PAIRED or b[0] in ALWAYS_PAIRED) and ctx.rng.random() > 0.25:
                continue
            cfg = copy.deepcopy(BASE)
            M[a[0]][2](cfg, copy.deepcopy(a[1]))
            vb = M[b[0]][0](ctx.rng, cfg)
            if vb is None and b[0] not in NOARG:
                continue
            test([('obs',), a, ('obs',), (b[0], vb)], 'pair')
            pairs += 1
    ctx.count('pairs', pairs)
    for _ in range(ctx.n(150, 2500)):
        test(gen_history(ctx.rng, M, BASE, names, ctx.rng.randint(3, 12)), 'random')
    for _ in range(ctx.n(50, 800)):
        test(gen_history(ctx.rng, M, BARE, names, ctx.rng.randint(3, 10)), 'random-bare', BARE)
    return found


# ---- K: generated notification graph <-> running code (which caches really refill after which mutator) -------------
PARAM_NODE = {
    'plasma.b_field': ['Plasma.b_field.set'], 'plasma.electron_distribution': ['Plasma.electron_distribution.set'],
    'plasma.composition': ['Plasma.composition.set'], 'plasma.composition.add': ['Composition.add'],
    'plasma.composition.set': ['Composition.set'], 'plasma.atomic_data': ['Plasma.atomic_data.set'],
    'plasma.geometry': ['Plasma.geometry.set'], 'plasma.geometry_transform': ['Plasma.geometry_transform.set'],
    'plasma.integrator': ['Plasma.integrator.set'], 'plasma.models': ['Plasma.models.set'],
    'plasma.models.add': ['plasma.ModelManager.add'], 'plasma.models.clear': ['plasma.ModelManager.clear'], 'beam.models.clear': ['beam.ModelManager.clear'], 'plasma.composition.clear': ['Composition.clear'], 'plasma.models.set': ['plasma.ModelManager.set'],
    'plasma.transform': ['scenegraph:Plasma'], 'plasma.parent': ['scenegraph:Plasma'],
    'ancestor.transform': ['scenegraph:Plasma', 'scenegraph:Beam', 'scenegraph:Laser'],
    'beam.energy': ['Beam.energy.set'], 'beam.power': ['Beam.power.set'], 'beam.temperature': ['Beam.temperature.set'],
    'beam.sigma': ['Beam.sigma.set'], 'beam.length': ['Beam.length.set'], 'beam.divergence_x': ['Beam.divergence_x.set'],
    'beam.divergence_y': ['Beam.divergence_y.set'], 'beam.element': ['Beam.element.set'],
    'beam.atomic_data': ['Beam.atomic_data.set'], 'beam.plasma': ['Beam.plasma.set'], 'beam.plasma(switch)': ['Beam.plasma.set'], 'laser.plasma(switch)': ['Laser.plasma.set'], 'beam.attenuator': ['Beam.attenuator.set'], 'beam.attenuator(pool-object)': ['Beam.attenuator.set'], 'plasma.models(pool-objects)': ['Plasma.models.set'], 'beam.models(pool-objects)': ['Beam.models.set'],
    'beam.attenuator.step': ['SingleRayAttenuator.step.set'], 'beam.attenuator.clamp_sigma': ['SingleRayAttenuator.clamp_sigma.set'],
    'beam.models': ['Beam.models.set'], 'beam.models(then-mutate-caller-list)': ['Beam.models.set'],
    'plasma.models(then-mutate-caller-list)': ['Plasma.models.set'], 'plasma.composition(tuple)': ['Plasma.composition.set'], 'plasma.models(generator)': ['Plasma.models.set'], 'beam.models(tuple)': ['Beam.models.set'], 'plasma.composition(then-mutate-caller-list)': ['Plasma.composition.set'], 'beam.models.add': ['beam.ModelManager.add'], 'beam.integrator': ['Beam.integrator.set'],
    'beam.transform': ['scenegraph:Beam'], 'beam.parent': ['scenegraph:Beam'],
    'laser.importance': ['Laser.importance.set'], 'laser.laser_spectrum': ['Laser.laser_spectrum.set'],
    'laser.laser_profile': ['Laser.laser_profile.set'], 'laser.plasma': ['Laser.plasma.set'], 'laser.models': ['Laser.models.set'],
    'laser.integrator': ['Laser.integrator.set'], 'laser.transform': ['scenegraph:Laser'], 'laser.parent': ['scenegraph:Laser'],
    'laser.profile.laser_length': ['UniformEnergyDensity.laser_length.set'],
    'laser.profile.laser_radius': ['UniformEnergyDensity.laser_radius.set'],
    'laser.profile.energy_density': ['UniformEnergyDensity.energy_density.set'],
    'beam.model(bcx).line': ['BeamCXLine.line.set'],        # round 6: found by the generated read table
}
ACCESSOR_CACHE = {'exc': 'cache:Models(ExcitationLine)', 'rec': 'cache:Models(RecombinationLine)', 'tcx': 'cache:Models(ThermalCXLine)',
                  'lrp': 'cache:Models(TotalRadiatedPower)', 'gaunt': 'cache:Models(Bremsstrahlung)', 'bcx': 'cache:Models(BeamCXLine)',
                  'bem': 'cache:Models(BeamEmissionLine)', 'stop': 'cache:Attenuation'}
# mutators after which some model kinds are no longer attached (so their caches cannot be seen to refill)
MODEL_SET_CHANGERS = ('plasma.models(pool-objects)', 'beam.models(pool-objects)', 'plasma.models.clear', 'beam.models.clear', 'plasma.models(generator)', 'beam.models(tuple)', 'plasma.models(then-mutate-caller-list)', 'beam.models(then-mutate-caller-list)', 'plasma.models', 'plasma.models.set', 'plasma.models.add', 'beam.models', 'beam.models.add', 'laser.models')


def _idents(L):
    d = {}
    prim = lambda n: [c for c in n.children if hasattr(c, 'material')]      # (a beam / laser may be parented to the plasma / beam)
    d['cache:PlasmaMaterial'] = [id(c.material) for c in prim(L.plasma)]
    d['cache:BeamMaterial'] = [id(c.material) for c in prim(L.beam)]
    d['cache:BeamGeometry'] = [id(c) for c in prim(L.beam)]
    d['cache:LaserGeometry'] = [id(c) for c in L.laser.get_geometry()]
    d['cache:LaserMaterial'] = [id(c.material) for c in L.laser.get_geometry()]
    return d


def _force_models(L):
    """evaluate every attached model once at a fixed point, so that a cleared cache refills even when the sight lines
    no longer cross the emitting volume after the change"""
    from raysect.core import Point3D, Vector3D
    from raysect.optical import Spectrum
    sp = Spectrum(480.0, 560.0, 16)
    for m in list(L.plasma.models):
        try:
            m.emission(Point3D(0.1, 0.1, 0.1), Vector3D(1, 0, 0), sp)
        except Exception:  # noqa
            pass
    for m in list(L.beam.models):
        try:
            m.emission(Point3D(0.0, 0.0, 0.5), Point3D(0.1, 0.1, 0.1), Vector3D(0, 0, 1), Vector3D(1, 0, 0), sp)
        except Exception:  # noqa
            pass
    try:
        L.beam.density(0.0, 0.0, 0.2)
    except Exception:  # noqa
        pass


def refill_correspondence(ctx, S, M):
    names = [n for n in sorted(M) if n in PARAM_NODE]
    lines = []
    for n in names:
        for node in PARAM_NODE[n]:
            lines.append('known ' + node)
            lines.append('clears ' + node)
            lines.append('readers ' + node)
    outs = ctx.driver(lines)
    pred = {}
    readers = {}        # round 6: caches whose fill functions READ the parameter (generated table Gen/CacheReads)
    k = 0
    for n in names:
        acc, racc = set(), set()
        for node in PARAM_NODE[n]:
            if outs[k] != '1':
                ctx.broke('correspondence', 'C01 graph node', dict(mutator=n, node=node, detail='mutator node not found in the generated notification graph'))
            acc |= set(outs[k + 1].split())
            racc |= set(outs[k + 2].split())
            k += 3
        pred[n] = acc
        readers[n] = racc
    for n in names:
        gen, act, upd = M[n]
        cfg = copy.deepcopy(BASE)
        L = S.build(cfg)
        st, _ = S.observe(L)
        if st != 'ok':
            ctx.broke('correspondence', 'C01 base scene', dict(detail='base scene does not render: %s' % st))
            return
        _force_models(L)
        keep = [list(L.plasma.children), list(L.beam.children), list(L.laser.get_geometry()),
                [getattr(c, 'material', None) for c in L.plasma.children + L.beam.children + L.laser.get_geometry()]]  # keep ids alive
        before = _idents(L)
        for d in L.data.values():
            d.calls.clear()
        v = gen(ctx.rng, cfg)
        if v is None and n not in NOARG:
            continue
        try:
            act(L, copy.deepcopy(v))
        except Exception as e:  # noqa  (S reports raising mutators)
            continue
        st, _ = S.observe(L)
        _force_models(L)
        after = _idents(L)
        observed = set()
        for d in L.data.values():
            for c in d.calls:
                if c[0] in ACCESSOR_CACHE:
                    observed.add(ACCESSOR_CACHE[c[0]])
        for c in before:
            if before[c] != after[c] or not after[c]:
                observed.add(c)
        ctx.traces += 1
        ctx.count('refill-check')
        missing = pred[n] - observed          # model says cleared, code did not refill: model over-approximates (unsound)
        extra = observed - pred[n]            # code refilled, graph has no path: translator misses an edge
        if n in MODEL_SET_CHANGERS:
            missing = {c for c in missing if not c.startswith('cache:Models(')}
        if st != 'ok':
            ctx.count('refill-check-scene-invalid-after:' + n)
            missing = set()
        # K stream `reads`: a cache whose fill function reads the parameter (per the generated read table) must be seen to
        # refill in the running code after that parameter is set -- same exemptions as above
        rmissing = readers[n] - observed
        if n in MODEL_SET_CHANGERS:
            rmissing = {c for c in rmissing if not c.startswith('cache:Models(')}
        if st != 'ok':
            rmissing = set()
        if readers[n]:
            ctx.count('reads-check')
        if rmissing:
            ctx.disagreements += 1
            ctx.broke('correspondence', 'C01 reads ' + n, dict(mutator=n, readers=sorted(readers[n]), observed_refilled=sorted(observed),
                                                               detail='the generated read table says these caches read the parameter, the running code does not refill them: %s' % sorted(rmissing)))
        if missing:
            ctx.disagreements += 1
            ctx.broke('correspondence', 'C01 refill ' + n, dict(mutator=n, predicted_cleared=sorted(pred[n]), observed_refilled=sorted(observed),
                                                                detail='graph claims invalidation the running code does not perform: %s' % sorted(missing)))
        if extra:
            ctx.count('refill-not-in-graph:' + n)
            ctx.extra.setdefault('refills_not_in_graph', {})[n] = sorted(extra)
        del keep


# ---- K: Notifier model <-> cherab.core.utility.notify.Notifier ----------------------------------------------------------
def notifier_correspondence(ctx):
    import gc
    from cherab.core.utility import Notifier
    rng = ctx.rng
    lines, expected = [], []
    for _ in range(ctx.n(150, 3000)):
        log = []

        class Obj:
            def __init__(self, i): self.i = i
            def m1(self): log.append('%d.1' % self.i)
            def m2(self): log.append('%d.2' % self.i)
            def m3(self): log.append('%d.3' % self.i)
        objs = {i: Obj(i) for i in range(1, 6)}
        nt = Notifier()
        ops, outs = [], []
        for _k in range(rng.randint(1, 14)):
            r = rng.random()
            liveids = sorted(objs)
            if r < 0.45 and liveids:
                i, m = rng.choice(liveids), rng.randint(1, 3)
                nt.add(getattr(objs[i], 'm%d' % m)); ops.append('a%d.%d' % (i, m))
            elif r < 0.6 and liveids:
                i, m = rng.choice(liveids), rng.randint(1, 3)
                nt.remove(getattr(objs[i], 'm%d' % m)); ops.append('r%d.%d' % (i, m))
            elif r < 0.72 and liveids:
                i = rng.choice(liveids)
                del objs[i]; gc.collect(); ops.append('k%d' % i)
            else:
                del log[:]
                nt.notify()
                outs.append('[' + ','.join(log) + ']'); ops.append('n')
        del log[:]
        nt.notify(); outs.append('[' + ','.join(log) + ']'); ops.append('n')
        lines.append('notifier ' + ' '.join(ops))
        expected.append(' '.join(outs))
    got = ctx.driver(lines)
    for l, e, g in zip(lines, expected, got):
        ctx.traces += 1
        ctx.case(key=l if len(l) < 60 else None)
        if e != g:
            ctx.disagreements += 1
            ctx.broke('correspondence', 'C01 Notifier', dict(line=l, implementation=e, model=g))
            # property-level oracle: every live registered callback exactly once, in registration order
            break


# ---- K: Subscription model (generated setter event lists) <-> who is really registered with whose notifier -------------
def subscription_correspondence(ctx):
    """for every subscribing setter of the generated table: random assignment histories over a pool of three provider objects
    (including re-assignment of the installed one); afterwards the owner must be registered with exactly the providers the
    model says, once each (read from the providers' notifier lists)"""
    from cherab.core import Plasma, Beam
    from cherab.core.laser import Laser
    from cherab.core.model import SingleRayAttenuator, Bremsstrahlung, BeamCXLine
    from cherab.core.model.laser import UniformEnergyDensity
    from cherab.core.atomic import Line, carbon
    rng = ctx.rng
    line = Line(carbon, 5, (8, 7))

    from cherab.core.beam import BeamModel, BeamAttenuator

    class _ProbeModel(BeamModel):                 # Beam.notifier is not visible from Python: observe by behaviour
        hits = 0

        def _change(self):
            type(self).hits += 1

    class _ProbeAttenuator(BeamAttenuator):
        hits = 0

        def _change(self):
            type(self).hits += 1

    def _registered(pv, owner):
        """how many times `owner` is registered with provider `pv`'s notifier"""
        nt = getattr(pv, 'notifier', None)
        if nt is not None:
            return sum(1 for r in nt._callbacks_refs if isinstance(r, tuple) and r[0]() is owner)
        type(owner).hits = 0
        pv.energy = pv.energy * 1.5 + 1.0         # every Beam parameter setter notifies
        return 1 if type(owner).hits > 0 else 0

    def _beam_with_plasma():
        b = Beam()
        b.plasma = Plasma()            # the attenuator setter configures the attenuator: it needs plasma and atomic data
        from harness.props import c01_scene as S_
        b.atomic_data = S_.MockData('A')
        return b
    spec = {
        'Beam.attenuator.set': (_beam_with_plasma, lambda: SingleRayAttenuator(), 'attenuator'),
        'BeamAttenuator.beam.set': (lambda: _ProbeAttenuator(), lambda: Beam(), 'beam'),
        'BeamAttenuator.plasma.set': (lambda: SingleRayAttenuator(), lambda: Plasma(), 'plasma'),
        'BeamModel.beam.set': (lambda: _ProbeModel(), lambda: Beam(), 'beam'),
        'BeamModel.plasma.set': (lambda: BeamCXLine(line), lambda: Plasma(), 'plasma'),
        'Laser.laser_profile.set': (lambda: Laser(), lambda: UniformEnergyDensity(), 'laser_profile'),
        'Laser.plasma.set': (lambda: Laser(), lambda: Plasma(), 'plasma'),
        'PlasmaModel.plasma.set': (lambda: Bremsstrahlung(), lambda: Plasma(), 'plasma'),
    }
    table = ctx.extra.get('setter_events', {}).get('setters', [])
    for name in table:
        if name not in spec:
            ctx.broke('correspondence', 'C01 subscription ' + name, dict(detail='subscribing setter found in the sources that the correspondence does not know how to drive'))
    lines, cases = [], []
    for name in sorted(spec):
        if name not in table:
            ctx.broke('correspondence', 'C01 subscription ' + name, dict(detail='setter no longer subscribes in the sources (not in the generated table)'))
            continue
        mk_owner, mk_prov, attr = spec[name]
        hists = [[0], [0, 0], [0, 1], [0, 1, 0], [0, 0, 1, 1, 0]] + [[rng.randrange(3) for _ in range(rng.randint(1, 7))] for _ in range(ctx.n(6, 60))]
        for h in hists:
            owner = mk_owner()
            provs = [mk_prov() for _ in range(3)]
            try:
                for j in h:
                    setattr(owner, attr, provs[j])
                got = []
                for j, pv in enumerate(provs):
                    got += [str(j + 1)] * _registered(pv, owner)
            except Exception as e:  # noqa
                ctx.broke('correspondence', 'C01 subscription ' + name, dict(history=h, detail='%s: %s' % (exc_kind(e), e)))
                continue
            lines.append('subs %s %s' % (name, ' '.join(str(j + 1) for j in h)))
            cases.append((name, h, sorted(got)))
    outs = ctx.driver(lines)
    for (name, h, got), out in zip(cases, outs):
        ctx.traces += 1
        ctx.count('subscription-check')
        want = sorted(out.split())
        if want != got:
            ctx.disagreements += 1
            ctx.broke('correspondence', 'C01 subscription ' + name, dict(setter=name, history=h, model=want, implementation=got))
            # property-level oracle (no model): registered with exactly the installed object, once
            if got != [str(h[-1] + 1)]:
                ctx.fail('C01:subscription:%s' % name,
                         'after the assignment history %r through %s the owner is registered with providers %r, installed is %r' % (h, name, got, h[-1] + 1),
                         dict(kind='subscription', setter=name, history=h))


def _detuple(x):
    if isinstance(x, list):
        return tuple(_detuple(y) for y in x)
    if isinstance(x, dict):
        return {k: _detuple(v) if not (k == 'composition') else v for k, v in x.items()}
    return x


def run(ctx):
    from harness.props import c01_scene as S
    ctx.rule = ('histories of public mutators of Plasma/Beam/Laser/attenuator/composition/model managers/scene graph interleaved with '
                'observations on a real scene with all nine model kinds; exhaustive singles, (sampled at quick, all at thorough) ordered pairs '
                'with observations in between, random histories of length 3..12; distinct = distinct mutator-name sequence; every history is non-trivial '
                '(at least one parameter really changes)')
    ctx.trusted += ['hand-written dependency table deps (which observation reads which parameter), validated by perturbation at run time',
                    'raysect scene graph, Ray.trace, NumericalIntegrator']
    ctx.assumptions += ['single-threaded rendering; concurrent render engines are outside the model']
    from harness.translators import notify_edges
    notify_edges.generate(ctx)
    from harness.translators import setter_events
    setter_events.generate(ctx)
    from harness.translators import cache_reads
    cache_reads.generate(ctx)
    ctx.lean_check(['Cherab.Props.C01', 'Cherab.Props.C01Notifier', 'Cherab.Props.C01Table', 'Cherab.Props.C01Subscription', 'Cherab.Props.C01Reads'], 'Cherab/Audit/C01.lean')
    M = mutators(S)
    refill_correspondence(ctx, S, M)
    notifier_correspondence(ctx)
    subscription_correspondence(ctx)
    search(ctx, S, M)


def replay(ctx, path):
    from harness.props import c01_scene as S
    r = json.load(open(path))
    if r['replay'].get('kind') == 'subscription':
        from harness.translators import setter_events
        setter_events.generate(ctx)
        subscription_correspondence(ctx)          # re-runs the fixed histories of every setter (the recorded one is among them or shorter)
        return ctx.finish()
    M = mutators(S)
    h = [tuple(_detuple(op)) for op in r['replay']['history']]
    base = BARE if r['replay'].get('base') == 'BARE' else BASE
    why = check_history(S, M, base, h)
    print('replay:', h, '->', why)
    if why:
        ctx.fail(r['signature'], why, r['replay'])
    return ctx.finish()
