"""build/load the out-of-tree Cython shim (harness/shim/cherab_shim.pyx) against /repo's current .pxd files"""
import fcntl
import hashlib
import importlib
import os
import subprocess
import sys

from .util import VERIF, REPO

SHIM = os.path.join(VERIF, 'harness', 'shim')
DEPS = ['cherab/core/math/interpolators/utility.pxd', 'cherab/core/math/interpolators/utility.pyx',
        'cherab/core/math/transform/periodic.pxd']


def ensure():
    h = hashlib.sha1()
    for d in DEPS + [os.path.join(SHIM, 'cherab_shim.pyx')]:
        p = d if os.path.isabs(d) else os.path.join(REPO, d)
        if os.path.exists(p):
            h.update(open(p, 'rb').read())
    stamp = os.path.join(VERIF, '.work', 'shim.stamp')
    os.makedirs(os.path.dirname(stamp), exist_ok=True)
    with open(os.path.join(VERIF, '.work', 'shim.lock'), 'w') as lk:
        fcntl.flock(lk, fcntl.LOCK_EX)
        have = any(f.startswith('cherab_shim.') and f.endswith('.so') for f in os.listdir(SHIM))
        if not have or not os.path.exists(stamp) or open(stamp).read() != h.hexdigest():
            r = subprocess.run(['/venv/bin/python', 'setup_shim.py', 'build_ext', '--inplace', '-q'], cwd=SHIM,
                               stdout=subprocess.PIPE, stderr=subprocess.STDOUT, text=True)
            if r.returncode != 0:
                raise RuntimeError('shim does not compile:\n' + r.stdout[-3000:])
            open(stamp, 'w').write(h.hexdigest())
    if SHIM not in sys.path:
        sys.path.insert(0, SHIM)
    return importlib.import_module('cherab_shim')
