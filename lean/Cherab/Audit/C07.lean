import Cherab.Props.C07
import Cherab.Props.C07Table
open Cherab.Props.C07 Cherab.Props.C07Table
#print axioms grid2_at_knot
