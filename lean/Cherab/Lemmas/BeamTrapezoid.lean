/- C04 helper: the code's cumulative trapezoid on an even grid is Mathlib's `trapezoidal_integral`; error bound -/
import Cherab.Lemmas.BeamDensity
import Mathlib.MeasureTheory.Integral.IntervalIntegral.TrapezoidalRule
import Mathlib.Algebra.BigOperators.Intervals

namespace Cherab.Lemmas.BeamDensity
open Cherab.BeamDensity Finset
variable {α : Type} [Field α] [LinearOrder α] [IsStrictOrderedRing α]

/-- one trapezoid of the cumulative rule between samples `i` and `i+1` -/
def trap (x y : ℕ → α) (i : ℕ) : α := (x (i + 1) - x i) * (y (i + 1) + y i) / 2

theorem cumtrapzFrom_range' (x y : ℕ → α) : ∀ (m j : ℕ) (acc : α) (l : ℕ), l < m →
    (cumtrapzFrom acc (x j) (y j) ((List.range' (j + 1) m).map fun i => (x i, y i)))[l]?
      = some (acc + ∑ i ∈ range (l + 1), trap x y (j + i)) := by
  intro m
  induction m with
  | zero => intro j acc l hl; omega
  | succ m ih =>
      intro j acc l hl
      rw [List.range'_succ, List.map_cons]
      simp only [cumtrapzFrom]
      cases l with
      | zero => simp [trap, two_lit]
      | succ l =>
          rw [List.getElem?_cons_succ, ih (j + 1) _ l (by omega)]
          congr 1
          rw [sum_range_succ' _ (l + 1)]
          simp only [trap, Nat.add_zero]
          have : ∀ i, j + 1 + i = j + (i + 1) := by intro i; omega
          simp only [this, two_lit]
          ring

/-- the `k`-th cumulative trapezoid value over samples `(x i, y i)`, `i = 0..m`, is the sum of the first `k` trapezoids -/
theorem cumtrapz_getElem? (x y : ℕ → α) (m k : ℕ) (hk : k ≤ m) :
    (cumtrapz ((List.range (m + 1)).map fun i => (x i, y i)))[k]? = some (∑ i ∈ range k, trap x y i) := by
  rw [List.range_eq_range', List.range'_succ, List.map_cons]
  simp only [cumtrapz]
  cases k with
  | zero => simp
  | succ k =>
      rw [List.getElem?_cons_succ]
      have := cumtrapzFrom_range' x y m 0 0 k (by omega)
      simp only [zero_add] at this
      exact this

/-- on an evenly spaced grid the cumulative sum is Mathlib's `trapezoidal_integral` -/
theorem sum_trap_eq_trapezoidal (f : ℝ → ℝ) (a h : ℝ) (k : ℕ) (hk : 0 < k) :
    ∑ i ∈ range k, trap (fun i : ℕ => a + i * h) (fun i : ℕ => f (a + i * h)) i = trapezoidal_integral f k a (a + k * h) := by
  rw [← sum_trapezoidal_integral_adjacent_intervals hk]
  apply sum_congr rfl
  intro i _
  rw [trapezoidal_integral_one]
  simp only [trap]
  push_cast
  ring

/-- **trapezoid error bound for the code's cumulative rule**: for a C² integrand with `|f''| ≤ ζ` the `k`-th cumulative
value on the grid `a + i h` differs from `∫_a^{a+kh} f` by at most `|k h|³ ζ / (12 k²)` (`= (z_k − a) h² ζ / 12`) -/
theorem cumtrapz_error_bound (f : ℝ → ℝ) (a h ζ : ℝ) (m k : ℕ) (hk0 : 0 < k) (hk : k ≤ m)
    (hf : ContDiffOn ℝ 2 f (Set.uIcc a (a + k * h)))
    (hb : ∀ x, |iteratedDerivWithin 2 f (Set.uIcc a (a + k * h)) x| ≤ ζ) :
    ∃ c, (cumtrapz ((List.range (m + 1)).map fun i : ℕ => (a + i * h, f (a + i * h))))[k]? = some c ∧
      |c - ∫ x in a..(a + k * h), f x| ≤ |k * h| ^ 3 * ζ / (12 * k ^ 2) := by
  refine ⟨_, cumtrapz_getElem? (fun i : ℕ => a + i * h) (fun i : ℕ => f (a + i * h)) m k hk, ?_⟩
  rw [sum_trap_eq_trapezoidal f a h k hk0]
  have := trapezoidal_error_le_of_c2 hf hb hk0
  unfold trapezoidal_error at this
  simpa using this

end Cherab.Lemmas.BeamDensity
