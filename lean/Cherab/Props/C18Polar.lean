import Cherab.Model.Laser
import Cherab.Gen.LaserEdges
import Mathlib.Tactic.Ring
import Mathlib.Tactic.Linarith
import Mathlib.Tactic.FieldSimp
import Mathlib.Tactic.Positivity
import Mathlib.Algebra.Order.Field.Basic
import Mathlib.Algebra.Order.Ring.Rat
import Mathlib.Analysis.Real.Sqrt

/-!
# C18 — polarisation (round 6)

`set_polarization` / `get_polarization` of the four profile classes and raysect's `Vector3D.normalise`, as transcribed in
`Model/Laser.lean` (section Polarisation).  `sqrt` is a parameter; the only contract used is `SqrtOk`: on positive
arguments it returns the positive square root.  The constructor is the *generated* statement list (`Gen/LaserEdges`)
with the `set_polarization` calls executed where they stand.
-/
namespace Cherab.Props.C18
set_option linter.unusedSectionVars false
set_option linter.unusedVariables false
set_option linter.unusedSimpArgs false
open Cherab.Laser

section Polar
variable {α : Type} [Field α] [LinearOrder α] [IsStrictOrderedRing α]

/-- the contract of `sqrt` used below -/
def SqrtOk (E : Ext α) : Prop := ∀ s : α, 0 < s → 0 < E.sqrt s ∧ E.sqrt s * E.sqrt s = s

def IsZero (v : V3 α) : Prop := v.x = 0 ∧ v.y = 0 ∧ v.z = 0

theorem normSq_nonneg (v : V3 α) : 0 ≤ normSq v := by
  unfold normSq
  nlinarith [mul_self_nonneg v.x, mul_self_nonneg v.y, mul_self_nonneg v.z]

theorem normSq_eq_zero_iff (v : V3 α) : normSq v = 0 ↔ IsZero v := by
  unfold normSq IsZero
  constructor
  · intro h
    have hx := mul_self_nonneg v.x
    have hy := mul_self_nonneg v.y
    have hz := mul_self_nonneg v.z
    refine ⟨?_, ?_, ?_⟩ <;> apply mul_self_eq_zero.mp <;> linarith
  · rintro ⟨hx, hy, hz⟩
    simp [hx, hy, hz]

/-- `normalise` raises (ZeroDivisionError) exactly on the zero vector -/
theorem normalise_none_iff (E : Ext α) (v : V3 α) : normalise E v = none ↔ IsZero v := by
  rw [← normSq_eq_zero_iff]
  unfold normalise
  constructor
  · intro h
    by_cases hc : normSq v ≤ 0 ∧ 0 ≤ normSq v
    · exact le_antisymm hc.1 hc.2
    · simp [hc] at h
  · intro h
    simp [h]

theorem normalise_some (E : Ext α) (v : V3 α) (hv : ¬ IsZero v) :
    normalise E v = some { x := v.x * (1 / E.sqrt (normSq v)), y := v.y * (1 / E.sqrt (normSq v)),
                           z := v.z * (1 / E.sqrt (normSq v)) } := by
  have h0 : normSq v ≠ 0 := fun h => hv ((normSq_eq_zero_iff v).mp h)
  have hc : ¬ (normSq v ≤ 0 ∧ 0 ≤ normSq v) := fun hc => h0 (le_antisymm hc.1 hc.2)
  unfold normalise
  simp [hc]

theorem normSq_pos (v : V3 α) (hv : ¬ IsZero v) : 0 < normSq v :=
  lt_of_le_of_ne (normSq_nonneg v) (fun h => hv ((normSq_eq_zero_iff v).mp h.symm))

/-- the stored polarisation has unit length -/
theorem normalise_unit (E : Ext α) (hs : SqrtOk E) (v u : V3 α) (h : normalise E v = some u) : normSq u = 1 := by
  have hv : ¬ IsZero v := fun hz => by rw [(normalise_none_iff E v).mpr hz] at h; cases h
  rw [normalise_some E v hv] at h
  obtain ⟨hpos, hsq⟩ := hs _ (normSq_pos v hv)
  cases h
  simp only [normSq] at hsq hpos ⊢
  generalize E.sqrt (v.x * v.x + v.y * v.y + v.z * v.z) = s at hsq hpos ⊢
  have hne : s ≠ 0 := ne_of_gt hpos
  field_simp
  nlinarith [hsq]

/-- … and the direction of the argument: it is the argument scaled by a positive factor -/
theorem normalise_parallel (E : Ext α) (hs : SqrtOk E) (v u : V3 α) (h : normalise E v = some u) :
    ∃ k : α, 0 < k ∧ u.x = k * v.x ∧ u.y = k * v.y ∧ u.z = k * v.z := by
  have hv : ¬ IsZero v := fun hz => by rw [(normalise_none_iff E v).mpr hz] at h; cases h
  rw [normalise_some E v hv] at h
  obtain ⟨hpos, hsq⟩ := hs _ (normSq_pos v hv)
  cases h
  exact ⟨1 / E.sqrt (normSq v), by positivity, by ring, by ring, by ring⟩

theorem sqrt_unique (E : Ext α) (hs : SqrtOk E) (s a : α) (hspos : 0 < s) (ha : 0 < a) (h : a * a = s) :
    E.sqrt s = a := by
  obtain ⟨hpos, hsq⟩ := hs s hspos
  exact (mul_self_inj_of_nonneg hpos.le ha.le).mp (hsq.trans h.symm)

/-- a unit vector is stored as it is: re-assigning the reported polarisation changes nothing -/
theorem normalise_idempotent (E : Ext α) (hs : SqrtOk E) (u : V3 α) (hu : normSq u = 1) : normalise E u = some u := by
  have hv : ¬ IsZero u := fun hz => by
    have := (normSq_eq_zero_iff u).mpr hz
    rw [hu] at this
    exact one_ne_zero this
  rw [normalise_some E u hv, hu, sqrt_unique E hs 1 1 one_pos one_pos (by ring)]
  simp

/-- the stored polarisation depends on the direction of the argument only -/
theorem normalise_scale_invariant (E : Ext α) (hs : SqrtOk E) (v : V3 α) (k : α) (hk : 0 < k) :
    normalise E { x := k * v.x, y := k * v.y, z := k * v.z } = normalise E v := by
  by_cases hv : IsZero v
  · rw [(normalise_none_iff E v).mpr hv]
    apply (normalise_none_iff E _).mpr
    obtain ⟨hx, hy, hz⟩ := hv
    simp [IsZero, hx, hy, hz]
  · have hkv : ¬ IsZero ({ x := k * v.x, y := k * v.y, z := k * v.z } : V3 α) := by
      intro hz
      obtain ⟨hx, hy, hz⟩ := hz
      simp only at hx hy hz
      have hk0 : k ≠ 0 := ne_of_gt hk
      exact hv ⟨(mul_eq_zero.mp hx).resolve_left hk0, (mul_eq_zero.mp hy).resolve_left hk0,
        (mul_eq_zero.mp hz).resolve_left hk0⟩
    obtain ⟨hpos, hsq⟩ := hs _ (normSq_pos v hv)
    have hn : normSq ({ x := k * v.x, y := k * v.y, z := k * v.z } : V3 α) = (k * k) * normSq v := by
      simp only [normSq]; ring
    have hroot : E.sqrt ((k * k) * normSq v) = k * E.sqrt (normSq v) :=
      sqrt_unique E hs _ _ (by have := normSq_pos v hv; positivity) (by positivity) (by
        calc k * E.sqrt (normSq v) * (k * E.sqrt (normSq v))
            = (k * k) * (E.sqrt (normSq v) * E.sqrt (normSq v)) := by ring
          _ = (k * k) * normSq v := by rw [hsq])
    rw [normalise_some E _ hkv, normalise_some E v hv, hn, hroot]
    have hne : E.sqrt (normSq v) ≠ 0 := ne_of_gt hpos
    have hk0 : k ≠ 0 := ne_of_gt hk
    congr 2 <;> field_simp

/-! ## the setter, the getter, histories -/

/-- a rejected `set_polarization` (zero vector) leaves the object as it was; an accepted one stores the normalised
argument and touches nothing else (parameters, captured function, notifier) -/
theorem setPolarization_spec (E : Ext α) (o : PObj α) (v : V3 α) :
    (IsZero v ∧ setPolarization E o v = (o, .zeroDivision)) ∨
    (¬ IsZero v ∧ ∃ u, normalise E v = some u ∧ setPolarization E o v = ({ obj := o.obj, pol := some u }, .ok)) := by
  by_cases hv : IsZero v
  · left
    exact ⟨hv, by simp [setPolarization, (normalise_none_iff E v).mpr hv]⟩
  · right
    refine ⟨hv, _, normalise_some E v hv, ?_⟩
    simp [setPolarization, normalise_some E v hv]

theorem polarisation_rejected_unchanged (E : Ext α) (t : Cls) (o : PObj α) (v : V3 α)
    (h : (pstep E t o (.pol v)).2 ≠ .ok) : (pstep E t o (.pol v)).1 = o := by
  rcases setPolarization_spec E o v with ⟨_, h1⟩ | ⟨_, u, _, h1⟩
  · simp [pstep, h1]
  · simp [pstep, h1] at h

/-- `set_polarization` never changes what the parameter side shows (energy density, geometry, getters, notifier
count), a parameter setter never changes the polarisation -/
theorem polarisation_independent_of_parameters (E : Ext α) (t : Cls) (o : PObj α) :
    (∀ v, (pstep E t o (.pol v)).1.obj = o.obj) ∧ (∀ p x, (pstep E t o (.set p x)).1.pol = o.pol) := by
  refine ⟨fun v => ?_, fun p x => rfl⟩
  rcases setPolarization_spec E o v with ⟨_, h1⟩ | ⟨_, u, _, h1⟩ <;> simp [pstep, h1]

/-- projection of a mixed history onto the parameter assignments -/
def setsOf : List (POp α) → List (String × α)
  | [] => []
  | .set p v :: rest => (p, v) :: setsOf rest
  | .pol _ :: rest => setsOf rest

/-- the polarisation reached from `pol0` by the `set_polarization` calls of a history alone -/
def polOf (E : Ext α) (pol0 : Option (V3 α)) : List (POp α) → Option (V3 α)
  | [] => pol0
  | .set _ _ :: rest => polOf E pol0 rest
  | .pol v :: rest => polOf E (match normalise E v with | none => pol0 | some u => some u) rest

/-- ANY mixed history factors: the parameter side is the history of its parameter assignments alone (so every theorem
about `runOps` applies to it), the polarisation is that of its `set_polarization` calls alone -/
theorem history_factors (E : Ext α) (t : Cls) (ops : List (POp α)) (o : PObj α) :
    (prunOps E t o ops).obj = runOps E t o.obj (setsOf ops) ∧ (prunOps E t o ops).pol = polOf E o.pol ops := by
  induction ops generalizing o with
  | nil => exact ⟨rfl, rfl⟩
  | cons op rest ih =>
    cases op with
    | set p v =>
      have := ih (pstep E t o (.set p v)).1
      simpa [prunOps, setsOf, polOf, runOps, pstep] using this
    | pol v =>
      have := ih (pstep E t o (.pol v)).1
      rcases setPolarization_spec E o v with ⟨hz, h1⟩ | ⟨hz, u, hu, h1⟩
      · simpa [prunOps, setsOf, polOf, pstep, h1, (normalise_none_iff E v).mpr hz] using this
      · simpa [prunOps, setsOf, polOf, pstep, h1, hu] using this

/-- invariant: an assigned polarisation has unit length -/
def PolUnit (o : PObj α) : Prop := ∀ u, o.pol = some u → normSq u = 1

theorem polOf_unit (E : Ext α) (hs : SqrtOk E) (ops : List (POp α)) (pol0 : Option (V3 α))
    (h0 : ∀ u, pol0 = some u → normSq u = 1) : ∀ u, polOf E pol0 ops = some u → normSq u = 1 := by
  induction ops generalizing pol0 with
  | nil => exact h0
  | cons op rest ih =>
    cases op with
    | set p v => exact ih pol0 h0
    | pol v =>
      apply ih
      intro u hu
      cases hn : normalise E v with
      | none => rw [hn] at hu; exact h0 u hu
      | some w => rw [hn] at hu; exact normalise_unit E hs v u (hn.trans hu)

theorem history_polarisation_unit (E : Ext α) (hs : SqrtOk E) (t : Cls) (ops : List (POp α)) (o : PObj α)
    (h : PolUnit o) : PolUnit (prunOps E t o ops) := by
  intro u hu
  rw [(history_factors E t ops o).2] at hu
  exact polOf_unit E hs ops o.pol h u hu

/-- the polarisation after a history whose last accepted `set_polarization(v)` is followed only by parameter
assignments and rejected (zero-vector) calls is `normalise v`, at every point -/
theorem polarisation_is_last_accepted (E : Ext α) (t : Cls) (pre post : List (POp α)) (v : V3 α) (hv : ¬ IsZero v)
    (hpost : ∀ w, POp.pol w ∈ post → IsZero w) (o : PObj α) (x y z : α) :
    getPolarization (prunOps E t o (pre ++ POp.pol v :: post)) x y z = normalise E v := by
  have tail : ∀ (post : List (POp α)) (q : Option (V3 α)), (∀ w, POp.pol w ∈ post → IsZero w) → polOf E q post = q := by
    intro post
    induction post with
    | nil => intro q _; rfl
    | cons op rest ih =>
      intro q hq
      cases op with
      | set p a => exact ih q (fun w hw => hq w (List.mem_cons_of_mem _ hw))
      | pol w =>
        have hz := hq w (List.mem_cons_self)
        simp only [polOf, (normalise_none_iff E w).mpr hz]
        exact ih q (fun w hw => hq w (List.mem_cons_of_mem _ hw))
  have app : ∀ (pre : List (POp α)) (q : Option (V3 α)) (rest : List (POp α)),
      polOf E q (pre ++ rest) = polOf E (polOf E q pre) rest := by
    intro pre
    induction pre with
    | nil => intro q rest; rfl
    | cons op r ih =>
      intro q rest
      cases op <;> simp [polOf, ih]
  unfold getPolarization
  rw [(history_factors E t _ o).2, app]
  simp only [polOf, normalise_some E v hv]
  exact tail post _ hpost

/-! ## the constructor (generated statement list) -/

theorem ofRes_ok (r : Res) : PRes.ofRes r = .ok ↔ r = .ok := by cases r <;> simp [PRes.ofRes]

theorem prunCtorFrom_cons (E : Ext α) (t : Cls) (args : String → α) (pol : V3 α) (o : PObj α) (op : CtorOp)
    (rest : List CtorOp) :
    prunCtorFrom E t args pol o (op :: rest) =
      if (pctorStep E t args pol o op).2 = .ok then prunCtorFrom E t args pol (pctorStep E t args pol o op).1 rest
      else pctorStep E t args pol o op := by
  rcases hstep : pctorStep E t args pol o op with ⟨o', r⟩
  cases r <;> simp [prunCtorFrom, hstep]

theorem runCtorFrom_cons (E : Ext α) (t : Cls) (args : String → α) (o : Obj α) (op : CtorOp) (rest : List CtorOp) :
    runCtorFrom E t args o (op :: rest) =
      if (ctorStep E t args o op).2 = .ok then runCtorFrom E t args (ctorStep E t args o op).1 rest
      else ctorStep E t args o op := by
  rcases hstep : ctorStep E t args o op with ⟨o', r⟩
  cases r <;> simp [runCtorFrom, hstep]

/-- an accepted polarised construction: the parameter side is exactly the (accepted) construction without polarisation,
and if `__init__` calls `set_polarization` the polarisation is `normalise pol` (which exists) -/
theorem prunCtorFrom_spec (E : Ext α) (t : Cls) (args : String → α) (pol : V3 α) (ops : List CtorOp) (o : PObj α)
    (hok : (prunCtorFrom E t args pol o ops).2 = .ok) :
    (runCtorFrom E t args o.obj ops).2 = .ok ∧
    (prunCtorFrom E t args pol o ops).1.obj = (runCtorFrom E t args o.obj ops).1 ∧
    (prunCtorFrom E t args pol o ops).1.pol =
      (if ops.any (fun op => decide (op = CtorOp.other polCall)) then normalise E pol else o.pol) ∧
    (ops.any (fun op => decide (op = CtorOp.other polCall)) = true → ¬ IsZero pol) := by
  induction ops generalizing o with
  | nil => simp [prunCtorFrom, runCtorFrom]
  | cons op rest ih =>
    rw [prunCtorFrom_cons] at hok ⊢
    rw [runCtorFrom_cons]
    by_cases hop : op = CtorOp.other polCall
    · -- the polarisation call
      subst hop
      rcases setPolarization_spec E o pol with ⟨hz, h1⟩ | ⟨hz, u, hu, h1⟩
      · simp [pctorStep, h1] at hok
      · have hstep : pctorStep E t args pol o (CtorOp.other polCall) = ({ obj := o.obj, pol := some u }, .ok) := by
          simp [pctorStep, h1]
        rw [hstep] at hok ⊢
        simp only [if_true] at hok ⊢
        obtain ⟨a, b, c, d⟩ := ih _ hok
        refine ⟨by simpa [ctorStep] using a, by simpa [ctorStep] using b, ?_, fun _ => hz⟩
        rw [c]
        by_cases hany : rest.any (fun op => decide (op = CtorOp.other polCall)) = true
        · simp [hany]
        · simp [hany, hu]
    · have hstep : pctorStep E t args pol o op =
          ({ o with obj := (ctorStep E t args o.obj op).1 }, PRes.ofRes (ctorStep E t args o.obj op).2) := by
        simp [pctorStep, hop]
      rw [hstep] at hok ⊢
      by_cases hr : (ctorStep E t args o.obj op).2 = .ok
      · have hr' : PRes.ofRes (ctorStep E t args o.obj op).2 = .ok := (ofRes_ok _).mpr hr
        rw [if_pos hr'] at hok ⊢
        rw [if_pos hr]
        obtain ⟨a, b, c, d⟩ := ih _ hok
        refine ⟨a, b, ?_, ?_⟩
        · rw [c]; simp [hop]
        · intro h; apply d; simpa [hop] using h
      · have hr' : PRes.ofRes (ctorStep E t args o.obj op).2 ≠ .ok := fun h => hr ((ofRes_ok _).mp h)
        simp [hr'] at hok

/-- converse: whenever the parameters alone are accepted and the polarisation argument is not the zero vector, the
polarised construction is accepted (so the fresh object of `polarisation_eq_fresh` exists whenever `runCtor` accepts) -/
theorem prunCtorFrom_complete (E : Ext α) (t : Cls) (args : String → α) (pol : V3 α) (hz : ¬ IsZero pol)
    (ops : List CtorOp) (o : PObj α) (hok : (runCtorFrom E t args o.obj ops).2 = .ok) :
    (prunCtorFrom E t args pol o ops).2 = .ok := by
  induction ops generalizing o with
  | nil => simp [prunCtorFrom]
  | cons op rest ih =>
    rw [runCtorFrom_cons] at hok
    rw [prunCtorFrom_cons]
    by_cases hop : op = CtorOp.other polCall
    · subst hop
      rcases setPolarization_spec E o pol with ⟨hz', _⟩ | ⟨_, u, hu, h1⟩
      · exact absurd hz' hz
      · have hstep : pctorStep E t args pol o (CtorOp.other polCall) = ({ obj := o.obj, pol := some u }, .ok) := by
          simp [pctorStep, h1]
        rw [hstep]
        simp only [if_true]
        apply ih
        simpa [ctorStep] using hok
    · have hstep : pctorStep E t args pol o op =
          ({ o with obj := (ctorStep E t args o.obj op).1 }, PRes.ofRes (ctorStep E t args o.obj op).2) := by
        simp [pctorStep, hop]
      rw [hstep]
      by_cases hr : (ctorStep E t args o.obj op).2 = .ok
      · rw [if_pos hr] at hok
        rw [if_pos ((ofRes_ok _).mpr hr)]
        exact ih _ hok
      · rw [if_neg hr] at hok
        exact absurd hok hr

theorem ctor_polarisation_complete (E : Ext α) (t : Cls) (args : String → α) (pol : V3 α) (hz : ¬ IsZero pol)
    (hok : (runCtor E t args).2 = .ok) : (prunCtor E t args pol).2 = .ok :=
  prunCtorFrom_complete E t args pol hz t.ctor { obj := blank, pol := none } hok

/-- `Cls(**args, polarization=pol)` accepted ⇒ `Cls(**args)` of the unpolarised model is accepted and is the parameter
side; the polarisation is `normalise pol`; in particular a zero vector is never accepted -/
theorem ctor_polarisation (E : Ext α) (t : Cls) (hp : polCtorB t = true) (args : String → α) (pol : V3 α)
    (hok : (prunCtor E t args pol).2 = .ok) :
    (runCtor E t args).2 = .ok ∧ (prunCtor E t args pol).1.obj = (runCtor E t args).1 ∧
    (∀ x y z, getPolarization (prunCtor E t args pol).1 x y z = normalise E pol) ∧ ¬ IsZero pol := by
  obtain ⟨a, b, c, d⟩ := prunCtorFrom_spec E t args pol t.ctor { obj := blank, pol := none } hok
  unfold polCtorB at hp
  refine ⟨a, b, fun x y z => ?_, d hp⟩
  unfold getPolarization
  unfold prunCtor
  rw [c, hp]
  simp

/-- "after any sequence of changes the polarisation equals that of a freshly constructed object": from any object whose
polarisation is unset or unit (e.g. a constructed one), after ANY mixed history, the polarisation the object reports is
reproduced at every point by every accepted fresh construction that is handed the reported vector -/
theorem polarisation_eq_fresh (E : Ext α) (hs : SqrtOk E) (t : Cls) (hp : polCtorB t = true) (o : PObj α)
    (h : PolUnit o) (ops : List (POp α)) (u : V3 α) (hu : getPolarization (prunOps E t o ops) 0 0 0 = some u)
    (args : String → α) (hok : (prunCtor E t args u).2 = .ok) (x y z x' y' z' : α) :
    getPolarization (prunCtor E t args u).1 x y z = getPolarization (prunOps E t o ops) x' y' z' := by
  have hunit : normSq u = 1 := history_polarisation_unit E hs t ops o h u hu
  rw [(ctor_polarisation E t hp args u hok).2.2.1 x y z, normalise_idempotent E hs u hunit]
  exact hu.symm

/-- unconditional form: the fresh object exists for every parameter set the unpolarised constructor accepts -/
theorem polarisation_eq_fresh_total (E : Ext α) (hs : SqrtOk E) (t : Cls) (hp : polCtorB t = true) (o : PObj α)
    (h : PolUnit o) (ops : List (POp α)) (u : V3 α) (hu : getPolarization (prunOps E t o ops) 0 0 0 = some u)
    (args : String → α) (hok : (runCtor E t args).2 = .ok) (x y z x' y' z' : α) :
    (prunCtor E t args u).2 = .ok ∧
    getPolarization (prunCtor E t args u).1 x y z = getPolarization (prunOps E t o ops) x' y' z' := by
  have hunit : normSq u = 1 := history_polarisation_unit E hs t ops o h u hu
  have hz : ¬ IsZero u := fun hz => by
    have := (normSq_eq_zero_iff u).mpr hz
    rw [hunit] at this
    exact one_ne_zero this
  have hok' := ctor_polarisation_complete E t args u hz hok
  exact ⟨hok', polarisation_eq_fresh E hs t hp o h ops u hu args hok' x y z x' y' z'⟩

/-- a constructed object satisfies the invariant -/
theorem ctor_polarisation_unit (E : Ext α) (hs : SqrtOk E) (t : Cls) (hp : polCtorB t = true) (args : String → α)
    (pol : V3 α) (hok : (prunCtor E t args pol).2 = .ok) : PolUnit (prunCtor E t args pol).1 := by
  intro u hu
  have := (ctor_polarisation E t hp args pol hok).2.2.1 0 0 0
  unfold getPolarization at this
  rw [this] at hu
  exact normalise_unit E hs pol u hu

end Polar

/-! ## non-vacuity: ℚ with a "sqrt" that is right on the squares used -/
section Examples

def qsqrt (s : ℚ) : ℚ := if s = 25 then 5 else if s = 100 then 10 else if s = 1 then 1 else s

def extQ : Ext ℚ := { c := 299792458, pi := 3, sqrt := qsqrt, exp := id, erf := id, floorDiv := fun _ _ => 0, toNat := fun _ => 0 }

-- (3, 4, 0) is stored as (3/5, 4/5, 0); the zero vector is rejected; (6, 8, 0) gives the same polarisation
example : (normalise extQ ⟨3, 4, 0⟩).map (fun u => (u.x, u.y, u.z)) = some (3 / 5, 4 / 5, 0) := by
  simp [normalise, normSq, extQ, qsqrt]; norm_num
example : normalise extQ (⟨0, 0, 0⟩ : V3 ℚ) = none := by simp [normalise, normSq]
example : ¬ IsZero (⟨3, 4, 0⟩ : V3 ℚ) := by simp [IsZero]
example : PolUnit ({ obj := blank, pol := none } : PObj ℚ) := by intro u hu; cases hu

-- the `sqrt` contract is met by the real square root
noncomputable def extR : Ext ℝ := { c := 299792458, pi := 3, sqrt := Real.sqrt, exp := id, erf := id, floorDiv := fun _ _ => 0, toNat := fun _ => 0 }
example : SqrtOk extR := fun s hs => ⟨Real.sqrt_pos.2 hs, Real.mul_self_sqrt hs.le⟩

end Examples

end Cherab.Props.C18

namespace Cherab.Props.C18Table
open Cherab.Laser Cherab.Props.C18 Cherab.Gen.LaserEdges

/-- every profile class of the current source calls `set_polarization(polarization)` in `__init__` (generated table) -/
theorem profiles_set_polarisation : classes.all (fun t => t.isSpectrum || polCtorB t) = true := by decide

/-- hence `ctor_polarisation` / `polarisation_eq_fresh` apply to each of the four profile classes -/
theorem profiles_polarisation_fresh {α : Type} [Field α] [LinearOrder α] [IsStrictOrderedRing α]
    (E : Ext α) (hs : SqrtOk E) (t : Cls) (ht : t ∈ classes) (hprof : t.isSpectrum = false)
    (args : String → α) (pol : V3 α) (hok : (prunCtor E t args pol).2 = .ok) (ops : List (POp α)) (u : V3 α)
    (hu : getPolarization (prunOps E t (prunCtor E t args pol).1 ops) 0 0 0 = some u)
    (args' : String → α) (hok' : (prunCtor E t args' u).2 = .ok) (x y z x' y' z' : α) :
    getPolarization (prunCtor E t args' u).1 x y z =
      getPolarization (prunOps E t (prunCtor E t args pol).1 ops) x' y' z' := by
  have hp : polCtorB t = true := by
    have := List.all_eq_true.mp profiles_set_polarisation t ht
    simpa [hprof] using this
  exact polarisation_eq_fresh E hs t hp _ (ctor_polarisation_unit E hs t hp args pol hok) ops u hu args' hok' x y z x' y' z'

-- the generated UniformEnergyDensity: accepted with polarisation (3,4,0) → (3/5,4/5,0) at any point; a zero vector is
-- refused with ZeroDivisionError; a history with a parameter change, a rejected and a re-scaled assignment keeps it
def qArgs : String → ℚ := fun a => if a = "laser_radius" then 1 / 2 else 2

example : (prunCtor extQ clsUniformEnergyDensity qArgs ⟨3, 4, 0⟩).2 = .ok := by decide +kernel
example : (getPolarization (prunCtor extQ clsUniformEnergyDensity qArgs ⟨3, 4, 0⟩).1 7 8 9).map (fun u => (u.x, u.y, u.z))
    = some (3 / 5, 4 / 5, 0) := by decide +kernel
example : (prunCtor extQ clsUniformEnergyDensity qArgs ⟨0, 0, 0⟩).2 = .zeroDivision := by decide +kernel
example : (getPolarization (prunOps extQ clsUniformEnergyDensity (prunCtor extQ clsUniformEnergyDensity qArgs ⟨0, 1, 0⟩).1
      [.set "laser_length" 3, .pol ⟨6, 8, 0⟩, .pol ⟨0, 0, 0⟩, .set "energy_density" (-1)]) 0 0 0).map (fun u => (u.x, u.y, u.z))
    = some (3 / 5, 4 / 5, 0) := by decide +kernel
example : clsUniformEnergyDensity ∈ classes ∧ clsUniformEnergyDensity.isSpectrum = false :=
  ⟨by unfold classes; exact List.mem_cons_self, rfl⟩

end Cherab.Props.C18Table
