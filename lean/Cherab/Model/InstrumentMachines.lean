import Cherab.Model.Instruments

/-!
# Value-level state machines of `Spectrometer` and `Polychromator` (C16, round 6)

`Model/Instruments.lean` Part C has `CzernyTurnerSpectrometer`; these are the two other concrete classes of
`cherab/tools/spectroscopy/{spectrometer,polychromator}.py`, transcribed statement by statement: what `__init__` and the
setters validate (in the order of the code), store, recompute eagerly and reset to `None`; what the lazy getters of
`SpectroscopicInstrument` (`instrument.py`) fill.  A rejected assignment returns the state it was given.  As in Part C the
three attributes `_min_wavelength/_max_wavelength/_spectral_bins` are one optional record (cleared together by
`_clear_spectral_settings`, filled together by `_update_spectral_settings`).  No Mathlib; executable at `Float`.
-/
namespace Cherab.Instruments

/-- result of a call on an instrument -/
inductive MOut (α : Type) where
  | done
  | valueError
  | typeError
  | num (x : α)
  | int (n : Int)
  | str (s : String)
  | arrays (a : List (List α))
  | names (l : List String)
  /-- a list of filters (name, geometry) -/
  | filters (l : List (String × PFilter α))
  /-- keyword dictionaries `{'name': …, 'filter': …}` / the pipelines built from them -/
  | kwargs (l : List (String × String × PFilter α))

section
variable {α : Type} [Add α] [Sub α] [Mul α] [Div α] [Neg α] [Zero α] [One α] [OfScientific α] [NatCast α]
  [LT α] [LE α] [DecidableLT α] [DecidableLE α]

/-! ## `Spectrometer` -/

structure SpParams (α : Type) where
  w2p : List (List α)
  mbpp : Nat
  name : String

structure SpState (α : Type) where
  p : SpParams α
  /-- `_wavelengths`, recomputed eagerly by the `wavelength_to_pixel` setter -/
  wavelengths : List (List α)
  settings : Option (Settings α)
  /-- `_pipeline_classes` (`[SpectralRadiancePipeline0D]`): its length; nothing resets it -/
  classes : Option Nat
  kwargs : Option (List String)

inductive SpOp (α : Type) where
  | setW2p (v : List (List α))
  /-- the argument after `int(value)` -/
  | setMbpp (v : Int)
  | setName (v : String)
  | getMin | getMax | getBins | getW2p | getWavelengths | getMbpp | getName | getClasses | getKwargs
  | calibrate (integrate : α → α → α) (specMin specMax : α)

/-- the `wavelength_to_pixel` setter's loop: every array has at least two elements and increases strictly (the first
offending array raises `ValueError` before anything is stored: the lists are locals until the loop is over) -/
def w2pAccepted (v : List (List α)) : Bool := v.all validEdges

/-- the three setters; `none` = `ValueError`, nothing assigned -/
def spSetW2p (s : SpState α) (v : List (List α)) : Option (SpState α) :=
  if w2pAccepted v then
    some { s with p := { s.p with w2p := v }, wavelengths := v.map centres, settings := none }
  else none

def spSetMbpp (s : SpState α) (v : Int) : Option (SpState α) :=
  if v ≤ 0 then none else some { s with p := { s.p with mbpp := v.toNat }, settings := none }

def spSetName (s : SpState α) (v : String) : SpState α :=
  { s with p := { s.p with name := v }, kwargs := none }

/-- a freshly constructed instrument with (already validated) parameters -/
def spFresh (p : SpParams α) : SpState α :=
  { p := p, wavelengths := p.w2p.map centres, settings := none, classes := none, kwargs := none }

/-- the state before `__init__` has assigned anything (the values are never read) -/
def spBlank : SpState α := spFresh ⟨[], 0, ""⟩

/-- `Spectrometer.__init__(wavelength_to_pixel, min_bins_per_pixel, name)`: the `min_bins_per_pixel` setter, the
`wavelength_to_pixel` setter, then `SpectroscopicInstrument.__init__` (`_pipeline_classes = None`, the `name` setter,
`_clear_spectral_settings()`); `none` = `ValueError` -/
def spInit (w2p : List (List α)) (mbpp : Int) (name : String) : Option (SpState α) :=
  match spSetMbpp spBlank mbpp with
  | none => none
  | some s1 => match spSetW2p s1 w2p with
    | none => none
    | some s2 => some { spSetName { s2 with classes := none } name with settings := none }

/-- the lazy getters `min_wavelength / max_wavelength / spectral_bins`: fill when empty -/
def spFill (ceil : α → Int) (s : SpState α) : SpState α × Option (Settings α) :=
  match s.settings with
  | some st => (s, some st)
  | none =>
    match spectralSettings ceil s.p.w2p s.p.mbpp with
    | some st => ({ s with settings := some st }, some st)
    | none => (s, none)

def spStep (ceil : α → Int) (s : SpState α) : SpOp α → SpState α × MOut α
  | .setW2p v => match spSetW2p s v with
    | some s' => (s', .done)
    | none => (s, .valueError)
  | .setMbpp v => match spSetMbpp s v with
    | some s' => (s', .done)
    | none => (s, .valueError)
  | .setName v => (spSetName s v, .done)
  | .getMin => match spFill ceil s with
    | (s', some st) => (s', .num st.minW)
    | (s', none) => (s', .valueError)
  | .getMax => match spFill ceil s with
    | (s', some st) => (s', .num st.maxW)
    | (s', none) => (s', .valueError)
  | .getBins => match spFill ceil s with
    | (s', some st) => (s', .int st.bins)
    | (s', none) => (s', .valueError)
  | .getW2p => (s, .arrays s.p.w2p)
  | .getWavelengths => (s, .arrays s.wavelengths)
  | .getMbpp => (s, .int s.p.mbpp)
  | .getName => (s, .str s.p.name)
  | .getClasses => match s.classes with
    | some n => (s, .int n)
    | none => ({ s with classes := some 1 }, .int 1)
  | .getKwargs => match s.kwargs with
    | some k => (s, .names k)
    | none => ({ s with kwargs := some (specPipelineNames' s.p.name) }, .names (specPipelineNames' s.p.name))
  | .calibrate integ smin smax => match spFill ceil s with
    | (s', some st) => match calibrate integ smin smax st.minW st.maxW s'.p.w2p with
      | some r => (s', .arrays r)
      | none => (s', .valueError)
    | (s', none) => (s', .valueError)

def spRun (ceil : α → Int) (s : SpState α) (ops : List (SpOp α)) : SpState α :=
  ops.foldl (fun s o => (spStep ceil s o).1) s

def SpOp.isSetter : SpOp α → Bool
  | .setW2p _ | .setMbpp _ | .setName _ => true
  | _ => false

/-! ## `Polychromator` -/

structure PolyParams (α : Type) where
  /-- the filters in the caller's order: name and what `_update_spectral_settings` reads from the filter -/
  filters : List (String × PFilter α)
  mbpw : Nat
  name : String

structure PolyState (α : Type) where
  p : PolyParams α
  settings : Option (Settings α)
  /-- `_pipeline_classes` (`[RadiancePipeline0D for poly_filter in self._filters]`): its length -/
  classes : Option Nat
  kwargs : Option (List (String × String × PFilter α))

inductive PolyOp (α : Type) where
  /-- `none`: an element that is not a `PolychromatorFilter` -/
  | setFilters (v : List (Option (String × PFilter α)))
  /-- the argument after `int(value)` -/
  | setMbpw (v : Int)
  | setName (v : String)
  | getMin | getMax | getBins | getFilters | getMbpw | getName | getClasses | getKwargs | createPipelines

/-- external functions / constants -/
structure PolyExt (α : Type) where
  ceil : α → Int
  inf : α

/-- `_update_pipeline_kwargs`: `{'name': self._name + ': ' + poly_filter.name, 'filter': poly_filter}` per filter -/
def polyKwargs (p : PolyParams α) : List (String × String × PFilter α) :=
  p.filters.map fun f => (p.name ++ ": " ++ f.1, f)

/-- the `filters` setter: `TypeError` (= `none`) at the first element that is not a filter, before anything is assigned;
otherwise store, `_clear_spectral_settings()`, `_pipeline_classes = None`, `_pipeline_kwargs = None` -/
def polySetFilters (s : PolyState α) (v : List (Option (String × PFilter α))) : Option (PolyState α) :=
  if v.all Option.isSome then
    some { s with p := { s.p with filters := v.filterMap id }, settings := none, classes := none, kwargs := none }
  else none

def polySetMbpw (s : PolyState α) (v : Int) : Option (PolyState α) :=
  if v ≤ 0 then none else some { s with p := { s.p with mbpw := v.toNat }, settings := none }

def polySetName (s : PolyState α) (v : String) : PolyState α :=
  { s with p := { s.p with name := v }, kwargs := none }

def polyFresh (p : PolyParams α) : PolyState α := { p := p, settings := none, classes := none, kwargs := none }

def polyBlank : PolyState α := polyFresh ⟨[], 0, ""⟩

/-- `Polychromator.__init__(filters, min_bins_per_window, name)`: `super().__init__(name)`, the `min_bins_per_window`
setter (`ValueError`), the `filters` setter (`TypeError`) -/
def polyInit (filters : List (Option (String × PFilter α))) (mbpw : Int) (name : String) : PolyState α ⊕ MOut α :=
  let s0 : PolyState α := { polySetName { (polyBlank : PolyState α) with classes := none } name with settings := none }
  match polySetMbpw s0 mbpw with
  | none => .inr .valueError
  | some s1 => match polySetFilters s1 filters with
    | none => .inr .typeError
    | some s2 => .inl s2

def polyFill (x : PolyExt α) (s : PolyState α) : PolyState α × Settings α :=
  match s.settings with
  | some st => (s, st)
  | none =>
    let st := polySettings x.ceil x.inf (s.p.filters.map (·.2)) s.p.mbpw
    ({ s with settings := some st }, st)

def polyFillClasses (s : PolyState α) : PolyState α × Nat :=
  match s.classes with
  | some n => (s, n)
  | none => ({ s with classes := some s.p.filters.length }, s.p.filters.length)

def polyFillKwargs (s : PolyState α) : PolyState α × List (String × String × PFilter α) :=
  match s.kwargs with
  | some k => (s, k)
  | none => ({ s with kwargs := some (polyKwargs s.p) }, polyKwargs s.p)

def polyStep (x : PolyExt α) (s : PolyState α) : PolyOp α → PolyState α × MOut α
  | .setFilters v => match polySetFilters s v with
    | some s' => (s', .done)
    | none => (s, .typeError)
  | .setMbpw v => match polySetMbpw s v with
    | some s' => (s', .done)
    | none => (s, .valueError)
  | .setName v => (polySetName s v, .done)
  | .getMin => ((polyFill x s).1, .num (polyFill x s).2.minW)
  | .getMax => ((polyFill x s).1, .num (polyFill x s).2.maxW)
  | .getBins => ((polyFill x s).1, .int (polyFill x s).2.bins)
  | .getFilters => (s, .filters s.p.filters)
  | .getMbpw => (s, .int s.p.mbpw)
  | .getName => (s, .str s.p.name)
  | .getClasses => ((polyFillClasses s).1, .int (polyFillClasses s).2)
  | .getKwargs => ((polyFillKwargs s).1, .kwargs (polyFillKwargs s).2)
  /- `create_pipelines()`: fill both caches, then one pipeline per pair of `zip(classes, kwargs)` -/
  | .createPipelines =>
    let s1 := (polyFillClasses s).1
    ((polyFillKwargs s1).1, .kwargs ((polyFillKwargs s1).2.take (polyFillClasses s).2))

def polyRun (x : PolyExt α) (s : PolyState α) (ops : List (PolyOp α)) : PolyState α :=
  ops.foldl (fun s o => (polyStep x s o).1) s

def PolyOp.isSetter : PolyOp α → Bool
  | .setFilters _ | .setMbpw _ | .setName _ => true
  | _ => false

end

end Cherab.Instruments
