"""C15 — observer groups broadcast settings faithfully and keep members consistent.

T  lean/Cherab/Props/C15.lean (generic laws over the descriptor interpreter of Model/Groups.lean),
   lean/Cherab/Props/C15Table.lean (`table_wf` over the table generated from /repo *now*),
   lean/Cherab/Props/C15TableAux.lean (`table_wf_partial`, key uniqueness, class declarations)
K  harness/translators/groups.py regenerates lean/Cherab/Gen/GroupTable.lean; the generated table is *interpreted* by
   the native driver and compared with the real classes on histories of add / assign (scalar, list, tuple, ndarray,
   wrong lengths, poisoned values) / member-list assignment / rename / read / index / slice / name lookup / observe,
   exhaustively over class x attribute x value kind x group size 0..4 plus random histories; in addition the
   translator's class-body simulation is compared with the property objects Python really built.
S  direct oracles on the implementation, no model: per (class, attribute) read / scalar / element-wise / wrong-length
   round trips against a lone observer of the member type; per class add / len / index / slice / unique name / parent /
   children / type filter / observe-once (sample counters of accumulating pipelines); aliasing histories for every
   list-valued assignment (the caller keeps the list / ndarray it assigned and appends, reverses, pops, overwrites, clears
   it; group operations must not change the caller's object; lists handed out by getters are not handles either).
"""
import importlib
import inspect
import json
import os
import re
import subprocess

import numpy as np

from harness.translators import groups as tr
from harness.vlib.util import LEAN, exc_kind

ERRCODE = {'ValueError': 'V', 'TypeError': 'T', 'AttributeError': 'A', 'IndexError': 'I'}
MEMBER_LIST_ATTRS = ('observers', 'sight_lines', 'foil_detectors')
# member-level couplings (raysect / cherab.tools.observers.spectroscopy): assigning the key changes what the member reports
# for the listed attributes; the model treats members as independent stores, so these are re-synchronised with `poke`
COUPLED = {'pipelines': ('display_progress', 'accumulate'), 'origin': ('direction',), 'direction': ('origin',)}
# CRCs of the hand-modelled methods as transcribed into Model/Groups.lean (informational; K is the real tie)
FINGERPRINTS_AT_TRANSCRIPTION = None


def ename(kind):
    return kind if kind in ERRCODE else 'Other'


def expected_member(name):
    return 'name' if name == 'names' else name


# =====================================================================================================================
class Universe:
    """object identities -> ordinals, canonical contents -> content ids (shared by both sides of the comparison)"""

    def __init__(self):
        self.cids = {}
        self.uids = {}
        self.keep = []

    def uid(self, o):
        k = id(o)
        if k not in self.uids:
            self.uids[k] = len(self.uids) + 1
            self.keep.append(o)
        return self.uids[k]

    def cid(self, s):
        return self.cids.setdefault(s, len(self.cids) + 1)

    def canon(self, attr, v):
        if attr in ('display_progress', 'accumulate') and isinstance(v, list) and v and all(x == v[0] for x in v):
            v = v[0]          # spectroscopic observers report one entry per pipeline
        return self._c(v)

    def _c(self, v):
        from raysect.core import Point3D, Vector3D
        if v is None:
            return 'None'
        if isinstance(v, (bool, np.bool_)):
            return 'b%d' % bool(v)
        if isinstance(v, (int, np.integer)):
            return 'i%d' % int(v)
        if isinstance(v, (float, np.floating)):
            return 'f%r' % float(v)
        if isinstance(v, str):
            return 's' + v
        if isinstance(v, Point3D):
            return 'P(%r,%r,%r)' % tuple(round(c, 9) + 0.0 for c in (v.x, v.y, v.z))
        if isinstance(v, Vector3D):
            return 'V(%r,%r,%r)' % tuple(round(c, 9) + 0.0 for c in (v.x, v.y, v.z))
        if isinstance(v, (list, tuple)):
            return '[' + ','.join(self._c(x) for x in v) + ']'
        if isinstance(v, np.ndarray):
            return '[' + ','.join(self._c(x) for x in v) + ']'
        return 'o%d' % self.uid(v)

    def content(self, attr, v):
        return self.cid(self.canon(attr, v))


# =====================================================================================================================
def make_member(kind, tag=''):
    from raysect.core import Point3D, Vector3D
    from raysect.optical.observer import Observer0D, SightLine, FibreOptic, Pixel, TargettedPixel, PowerPipeline0D
    from raysect.primitive import Sphere
    if kind == 'Observer0D':
        return Observer0D(pipelines=[PowerPipeline0D(accumulate=True)])
    if kind == 'SightLine':
        return SightLine(pipelines=[PowerPipeline0D(accumulate=True)])
    if kind == 'FibreOptic':
        return FibreOptic(pipelines=[PowerPipeline0D(accumulate=True)])
    if kind == 'Pixel':
        return Pixel(pipelines=[PowerPipeline0D(accumulate=True)])
    if kind == 'TargettedPixel':
        from raysect.optical.material import AbsorbingSurface
        return TargettedPixel(targets=[Sphere(0.1, material=AbsorbingSurface())], pipelines=[PowerPipeline0D(accumulate=True)])
    if kind == 'SpectroscopicSightLine':
        from cherab.tools.observers.spectroscopy import SpectroscopicSightLine
        return SpectroscopicSightLine(Point3D(0, 0, 0), Vector3D(1, 0, 0))
    if kind == 'SpectroscopicFibreOptic':
        from cherab.tools.observers.spectroscopy import SpectroscopicFibreOptic
        return SpectroscopicFibreOptic(Point3D(0, 0, 0), Vector3D(1, 0, 0))
    if kind == 'BolometerFoil':
        from cherab.tools.observers.bolometry import BolometerFoil, BolometerSlit
        slit = BolometerSlit('slit' + tag, Point3D(0, 0, 0), Vector3D(1, 0, 0), 0.005, Vector3D(0, 1, 0), 0.005)
        return BolometerFoil('foil' + tag, Point3D(0, 0, -0.05), Vector3D(1, 0, 0), 0.001, Vector3D(0, 1, 0), 0.001, slit, accumulate=True)
    if kind == 'Sphere':
        from raysect.optical.material import AbsorbingSurface
        return Sphere(0.1, material=AbsorbingSurface())
    if kind == 'int':
        return 5
    raise KeyError(kind)


MEMBER_KIND = {'SpectroscopicObserver0DGroup': 'SpectroscopicSightLine',
               'Observer0DGroup': 'SightLine'}                                   # Observer0D itself is abstract (observe() not implemented)      # accepted type is Observer0D; its attributes need these
WRONG_KIND = {'Observer0D': ['Sphere', 'int'], 'SightLine': ['Pixel', 'int'], 'FibreOptic': ['SightLine', 'Sphere'],
              'Pixel': ['SightLine', 'int'], 'TargettedPixel': ['Pixel', 'Sphere'],
              'SpectroscopicFibreOptic': ['FibreOptic', 'SpectroscopicSightLine'], 'SpectroscopicSightLine': ['SightLine', 'int'],
              'BolometerFoil': ['TargettedPixel', 'Sphere', 'int']}


def value_pools(rng, spectroscopic):
    """fresh valid per-member values; chosen so that acceptance does not depend on the member's other attributes"""
    from raysect.core import Point3D, Vector3D
    from raysect.core.workflow import SerialEngine, MulticoreEngine
    from raysect.optical.observer import PowerPipeline0D, RadiancePipeline0D, SpectralPowerPipeline0D, SpectralRadiancePipeline0D
    from raysect.primitive import Sphere
    from raysect.optical.material import AbsorbingSurface
    axes = [(1, 0, 0), (-1, 0, 0), (0, 1, 0), (0, -1, 0), (0, 0, 1)]     # (0,0,-1) is rejected by the observers themselves (up vector parallel)

    def pipes():
        if spectroscopic:      # one spectral pipeline: display_progress / accumulate are then well-defined per member
            return [rng.choice([SpectralPowerPipeline0D, SpectralRadiancePipeline0D])()]
        return [rng.choice([PowerPipeline0D, RadiancePipeline0D, SpectralPowerPipeline0D])() for _ in range(rng.randint(1, 2))]

    return {
        'name': lambda: rng.choice(['alpha', 'beta', 'gamma', 'delta', 'n%d' % rng.randint(0, 9)]),
        'render_engine': lambda: rng.choice([SerialEngine, lambda: MulticoreEngine(rng.randint(1, 3))])(),
        'spectral_bins': lambda: rng.randint(10, 60),
        'spectral_rays': lambda: rng.randint(1, 10),
        'max_wavelength': lambda: 750.0 + rng.randint(0, 500) * 0.5,
        'min_wavelength': lambda: 100.0 + rng.randint(0, 500) * 0.5,
        'ray_extinction_prob': lambda: rng.choice([0.0, 0.01, 0.25, 0.5, 1.0, rng.randint(0, 100) / 128.0]),
        'ray_max_depth': lambda: rng.randint(25, 1000),                # observe() wants max depth >= min depth
        'ray_extinction_min_depth': lambda: rng.randint(1, 20),      # 0 is accepted by the setter but refused by observe()
        'ray_importance_sampling': lambda: rng.random() < 0.5,
        'ray_important_path_weight': lambda: rng.randint(0, 128) / 128.0,
        'quiet': lambda: rng.random() < 0.5,
        'pixel_samples': lambda: rng.randint(1, 5000),
        'samples_per_task': lambda: rng.randint(1, 500),
        'pipelines': pipes,
        'sensitivity': lambda: rng.randint(1, 64) / 8.0,
        'acceptance_angle': lambda: rng.randint(1, 89) * 1.0,
        'radius': lambda: rng.randint(1, 64) / 1024.0,
        'x_width': lambda: rng.randint(1, 64) / 256.0,
        'y_width': lambda: rng.randint(1, 64) / 256.0,
        'targets': lambda: [Sphere(0.1, material=AbsorbingSurface()) for _ in range(rng.randint(1, 2))],
        'targetted_path_prob': lambda: rng.randint(0, 128) / 128.0,
        'origin': lambda: Point3D(rng.randint(-3, 3), rng.randint(-3, 3), rng.randint(-3, 3)),
        'direction': lambda: Vector3D(*rng.choice(axes)),
        'display_progress': lambda: rng.random() < 0.5,
        'accumulate': lambda: rng.random() < 0.5,
    }


BAD_CANDIDATES = [-1, 'bad', None, 2.5j, [], 5]


class Impl:
    """the real group class of one translator class entry + everything needed to feed it and to describe it to the driver"""

    def __init__(self, cinfo, table, U, rng):
        self.c = cinfo
        self.U = U
        self.rng = rng
        mod = importlib.import_module(cinfo['file'][:-3].replace('/', '.'))
        self.cls = getattr(mod, cinfo['name'])
        self.name = cinfo['name']
        self.desc = {d['name']: d for d in table if d['cls'] == cinfo['name']}
        # the group's member type is what the *running* class declares (the translator's reading of the add method is
        # cross-checked in translator_vs_runtime and by `classes_declared`; it must not decide which observers we build)
        rt = getattr(self.cls, '_OBSERVER_TYPE', None)
        declared = rt.__name__ if rt is not None else (cinfo['accepted'][0] if cinfo['accepted'] else 'SightLine')
        if declared == 'Observer0D':
            declared = 'SightLine'          # Observer0D itself is abstract (observe() not implemented)
        self.accepted_rt = (rt,) if rt is not None else None
        self.member_kind = MEMBER_KIND.get(self.name, declared)
        self.spectro = self.member_kind.startswith('Spectroscopic')
        self.pools = value_pools(rng, self.spectro)
        self.wrong_kinds = WRONG_KIND.get(rt.__name__ if rt is not None else (cinfo['accepted'][0] if cinfo['accepted'] else ''), ['int'])
        self.scratch = make_member(self.member_kind, 'scratch')
        self._scratch_pipes = list(getattr(self.scratch, 'pipelines', []))
        attrs = ['name']
        for d in self.desc.values():
            for a in self._attrs_of(d):
                if a not in attrs:
                    attrs.append(a)
        self.mattrs = attrs               # member attributes that appear in snapshots
        self.bcast = [n for n, d in self.desc.items() if d['getter']['kind'] == 'each']
        self.mlist = [n for n, d in self.desc.items() if d['getter']['kind'] == 'memberList']
        self._bad = {}

    @staticmethod
    def _attrs_of(d):
        out = []
        if d['getter']['kind'] == 'each':
            out.append(d['getter']['attr'])
        s = d['setter']
        if s and s['kind'] == 'broadcast':
            out.append(s['seqAttr'])
            if s['orelse']['kind'] == 'broadcast':
                out.append(s['orelse']['attr'])
        return out

    # ---- member-level parameter: what a lone observer does with a value --------------------------------------------
    def probe(self, attr, v):
        """('ok', content id) or (error kind, 0)"""
        try:
            setattr(self.scratch, attr, v)
            return 'ok', self.U.content(attr, getattr(self.scratch, attr))
        except Exception as e:  # noqa
            return ename(exc_kind(e)), 0
        finally:
            self.unshare(attr)

    def unshare(self, attr):
        """the scratch observer must not keep sharing mutable collaborators (pipelines) with the members that receive the
        same value next: later probes of display_progress / accumulate would otherwise reach into the members"""
        if attr == 'pipelines':
            try:
                self.scratch.pipelines = self._scratch_pipes
            except Exception:  # noqa
                pass

    def obj_token(self, attr, v):
        from raysect.core.workflow import RenderEngine
        if attr is None:
            st, cid = 'Other', 0
        else:
            st, cid = self.probe(attr, v)
        kind = 'L' if isinstance(v, list) else 'T' if isinstance(v, tuple) else 'N' if isinstance(v, np.ndarray) else '-'
        return '%d:%s:%s:%d' % (cid, '-' if st == 'ok' else ERRCODE.get(st, 'O'), kind, int(isinstance(v, RenderEngine)))

    def member_value(self, mattr):
        if mattr in self.pools:
            return self.pools[mattr]()
        for cand in (self.rng.randint(1, 50), self.rng.randint(1, 64) / 64.0, self.rng.random() < 0.5, 'x%d' % self.rng.randint(0, 9)):
            if self.probe(mattr, cand)[0] == 'ok':
                return cand
        return 1

    def bad_value(self, mattr):
        if mattr not in self._bad:
            # strings are sized and iterable: for the attributes whose setter calls len()/iterates the value directly
            # (pipelines, targets) they would not be "scalars"; the model's atoms are unsized objects
            cands = [c for c in BAD_CANDIDATES if not (mattr in ('pipelines', 'targets') and isinstance(c, (str, list)))]
            self._bad[mattr] = [c for c in cands if self.probe(mattr, c)[0] != 'ok']
        if not self._bad[mattr]:
            return None
        c = self.rng.choice(self._bad[mattr])
        return list(c) if isinstance(c, list) else c       # fresh list: callers may mutate what they assigned (aliasing streams)

    # ---- description of objects for the driver -------------------------------------------------------------------------
    def mk_line(self, o):
        types = ','.join(k.__name__ for k in type(o).__mro__)
        kv = []
        for a in self.mattrs:
            try:
                kv.append('%s=%d' % (a, self.U.content(a, getattr(o, a))))
            except Exception:  # noqa
                pass
        return 'mk %d %s %s' % (self.U.uid(o), types, ','.join(kv) or '-')

    def members(self, g):
        return list(g._observers) if self.c['family'] == 'observer0D' else list(g._foil_detectors)

    def show(self, g, o):
        vals = []
        for a in self.mattrs:
            try:
                vals.append(str(self.U.content(a, getattr(o, a))))
            except Exception:  # noqa
                vals.append('0')
        try:
            p = getattr(o, 'parent', None) is g
        except Exception:  # noqa
            p = False
        return '%d:%d:%s' % (self.U.uid(o), int(p), ','.join(vals))

    def snap(self, g):
        ms = self.members(g)
        return ('n=%d ' % len(ms)) + ' '.join(self.show(g, o) for o in ms)

    def add(self, g, o):
        if self.c['family'] == 'observer0D':
            g.add_observer(o)
        else:
            g.add_foil_detector(o)


def outcome(f):
    try:
        f()
        return 'ok'
    except Exception as e:  # noqa
        return ename(exc_kind(e))


# =====================================================================================================================
class Trace:
    """protocol lines + what the implementation did, compared with the driver afterwards"""

    def __init__(self, ctx):
        self.ctx = ctx
        self.lines = []
        self.obs = []
        self.meta = []

    def emit(self, line, obs, meta=None):
        self.lines.append(line)
        self.obs.append(obs)
        self.meta.append(meta)


class History:
    def __init__(self, im, tr_, ctx, label):
        self.im, self.t, self.ctx, self.label = im, tr_, ctx, label
        self.U = im.U
        self.g = im.cls()
        self.known = set()
        self.ops = []
        self.t.emit('new %s %d' % (im.name, self.U.uid(self.g)), 'ok', self._m('new'))

    def _m(self, op, **k):
        d = dict(cls=self.im.name, history=self.label, op=op)
        d.update(k)
        self.ops.append(dict(op=op, **{a: str(b)[:80] for a, b in k.items()}))
        d['prefix'] = list(self.ops[-12:])
        return d

    def ensure(self, o):
        if id(o) not in self.known:
            self.known.add(id(o))
            self.t.emit(self.im.mk_line(o), 'ok', None)

    def snap(self, why):
        self.t.emit('snap ' + ','.join(self.im.mattrs), self.im.snap(self.g), self._m('snap', after=why))

    def add(self, o, what='member'):
        self.ensure(o)
        r = outcome(lambda: self.im.add(self.g, o))
        self.t.emit('add %d' % self.U.uid(o), r, self._m('add', what=what))
        self.ctx.count('K:add:' + what + ':' + r)
        self.obj(o)
        self.snap('add')

    def construct(self, objs, what):
        """group = Cls(observers=objs) (Observer0DGroup family): a second entry point for adding members.  The new group
        replaces the history's group; when the constructor raises, the half-built group is recovered through the parent of an
        adopted observer (the model keeps the adoptions made before the exception, as the loop of add_observer() does)"""
        for o in objs:
            self.ensure(o)
        box = []
        r = outcome(lambda: box.append(self.im.cls(observers=list(objs))))
        if box:
            g = box[0]
        else:
            g = None
            for o in objs:
                p = getattr(o, 'parent', None)
                if isinstance(p, self.im.cls) and p is not self.g and id(p) not in self.U.uids:
                    g = p
                    break
            if g is None:
                g = self.im.cls()        # nothing was adopted: the discarded group was empty
        self.g = g
        self.t.emit('ctor %d %s' % (self.U.uid(g), ' '.join(str(self.U.uid(o)) for o in objs)), r,
                    self._m('ctor', what=what, n=len(objs)))
        self.ctx.count('K:ctor:' + what + ':' + r)
        self.ctx.case(key=('K', self.im.name, 'ctor', what, len(objs), r))
        for o in objs:
            self.obj(o)
        self.snap('ctor')
        self.length()

    def obj(self, o):
        self.t.emit('obj %d %s' % (self.U.uid(o), ','.join(self.im.mattrs)), self.im.show(self.g, o), self._m('obj'))

    def assign(self, name, v, kind):
        im = self.im
        d = im.desc[name]
        s = d['setter']
        seq_attr = else_attr = None
        if s and s['kind'] == 'broadcast':
            seq_attr = s['seqAttr']
            else_attr = s['orelse']['attr'] if s['orelse']['kind'] == 'broadcast' else None
        toks = [im.obj_token(else_attr, v)]
        if isinstance(v, (list, tuple, np.ndarray)):
            toks += [im.obj_token(seq_attr, e) for e in v]
        r = outcome(lambda: setattr(self.g, name, v))
        n = len(im.members(self.g))
        self.t.emit('set %s %s' % (name, ' '.join(toks)), r, self._m('set', attr=name, kind=kind, n=n, value=repr(v)[:120]))
        self.ctx.count('K:set:' + kind + ':' + r)
        self.ctx.case(key=('K', im.name, name, kind, n, r))
        # member-level couplings: re-synchronise the model's view of the coupled attributes
        for written in {seq_attr, else_attr} - {None}:
            for ca in COUPLED.get(written, ()):
                if ca in im.mattrs:
                    for o in im.members(self.g):
                        try:
                            cid = self.U.content(ca, getattr(o, ca))
                        except Exception:  # noqa
                            continue
                        self.t.emit('poke %d %s %d' % (self.U.uid(o), ca, cid), 'ok', None)
                        self.ctx.count('K:member-coupling-resync')
        self.snap('set ' + name)
        return v

    def mutate_caller(self, v, extra, how, what):
        """the caller keeps the object it assigned and changes it afterwards; the model holds no reference to it, so it
        predicts that nothing happens to the group"""
        if mutate_in_place(v, extra, how):
            self.ctx.count('K:caller-mutation:' + how)
            self.snap('caller-side %s of the object assigned to %s' % (how, what))
            if what in self.im.desc:
                self.read(what)

    def read(self, name):
        im = self.im
        d = im.desc[name]
        try:
            v = getattr(self.g, name)
            if d['getter']['kind'] == 'memberList':
                o = 'objs ' + ' '.join(str(self.U.uid(x)) for x in v)
            else:
                ga = d['getter'].get('attr', expected_member(name))
                o = 'vals ' + ' '.join(str(self.U.content(ga, x)) for x in v)
        except Exception as e:  # noqa
            o = 'err ' + ename(exc_kind(e))
        self.t.emit('get ' + name, o, self._m('get', attr=name))
        self.ctx.count('K:get')

    def setm(self, name, objs, container):
        for o in objs:
            self.ensure(o)
        v = {'L': list, 'T': tuple}.get(container, lambda x: x)(objs)
        if container == '-':
            v = objs[0] if objs else 5       # not a container at all
            toks = []
        else:
            toks = [str(self.U.uid(o)) for o in objs]
        r = outcome(lambda: setattr(self.g, name, v))
        self.t.emit('setm %s %s %s' % (name, container, ' '.join(toks)), r, self._m('setm', attr=name, container=container, n=len(objs)))
        self.ctx.count('K:setm:' + container + ':' + r)
        self.ctx.case(key=('K', self.im.name, name, 'setm', container, len(objs), r))
        for o in objs:
            self.obj(o)
        self.snap('setm')
        return v

    def item(self, key):
        try:
            v = self.g[key]
            o = 'objs ' + ' '.join(str(self.U.uid(x)) for x in (v if isinstance(v, (tuple, list)) else [v]))
        except Exception as e:  # noqa
            o = 'err ' + ename(exc_kind(e))
        if isinstance(key, bool) or not isinstance(key, (int, slice, str)):
            line = 'item x'
        elif isinstance(key, int):
            line = 'item i %d' % key
        elif isinstance(key, slice):
            line = 'item s %s %s %s' % tuple('-' if x is None else str(x) for x in (key.start, key.stop, key.step))
        else:
            line = 'item n %d' % self.U.content('name', key)
        self.t.emit(line, o, self._m('item', key=repr(key)))
        self.ctx.count('K:item:' + line.split()[1] + ':' + o.split()[0] + (o.split()[1] if o.startswith('err') else ''))
        self.ctx.case(key=('K', self.im.name, 'item', line, o.split()[0]))

    def length(self):
        self.t.emit('len', str(len(self.g)), self._m('len'))

    def poke(self, o, attr, v):
        try:
            setattr(o, attr, v)
        except Exception:  # noqa
            return
        self.t.emit('poke %d %s %d' % (self.U.uid(o), attr, self.U.content(attr, getattr(o, attr))), 'ok', self._m('poke', attr=attr))
        self.ctx.count('K:poke')
        self.snap('poke')

    def reparent(self, o, target, what):
        """observer.parent = <None | another node> behind the group's back"""
        try:
            o.parent = target
        except Exception:  # noqa
            return
        self.t.emit('parent %d %s' % (self.U.uid(o), '-' if target is None else str(self.U.uid(target))), 'ok', self._m('parent', to=what))
        self.ctx.count('K:parent-behind-back:' + what)
        self.snap('parent')

    def observe(self):
        """group.observe(): which members' sample counters advanced, and by how many observations"""
        from raysect.core.workflow import SerialEngine
        from raysect.optical import World
        im = self.im
        ms = im.members(self.g)
        if not all(hasattr(o, 'observe') for o in ms):
            return
        world = World()
        self.g.parent = world
        uniq = {id(o): o for o in ms}.values()
        for o in uniq:
            prep_observe(self.g, world, o)
        # the assignments above are direct member changes: tell the model
        for o in uniq:
            for a in im.mattrs:
                try:
                    self.t.emit('poke %d %s %d' % (self.U.uid(o), a, self.U.content(a, getattr(o, a))), 'ok', None)
                except Exception:  # noqa
                    pass
        before = {id(o): _samples(o) for o in uniq}
        r = outcome(self.g.observe)
        if r != 'ok':
            try:
                self.g.observe()
            except Exception as e:  # noqa
                r = r + ':' + str(e)[:200]
        seen = []
        for o in uniq:
            delta = _samples(o) - before[id(o)]
            seen.append((self.U.uid(o), delta // 3 if delta % 3 == 0 else -1))
        # model: the members in call order; compare as multiset per object
        want = [self.U.uid(o) for o in ms]
        got = sorted(u for u, k in seen for _ in range(max(k, 0)))
        bad = [u for u, k in seen if k < 0]
        self.t.emit('observe', 'objs ' + ' '.join(str(u) for u in want) if (got == sorted(want) and not bad and r == 'ok')
                    else 'observed %s status %s' % (seen, r), self._m('observe', n=len(ms)), )
        self.ctx.count('K:observe')
        self.ctx.case(key=('K', im.name, 'observe', len(ms), len(uniq)))
        self.g.parent = None
        self.snap('observe')


def prep_observe(g, world, o):
    """make one member cheaply observable inside `world` (direct member changes, not group operations)"""
    from raysect.core.workflow import SerialEngine
    o.render_engine = SerialEngine()
    o.quiet = True
    o.pixel_samples = 3
    for p in o.pipelines:
        if hasattr(p, 'accumulate'):
            p.accumulate = True
        if hasattr(p, 'display_progress'):
            p.display_progress = False
        if hasattr(p, 'quiet'):
            p.quiet = True
    if hasattr(o, 'slit'):
        o.slit.parent = g
    elif hasattr(o, 'targets'):
        for tg in o.targets:
            tg.parent = world
    # one direct observation absorbs the re-initialisation of accumulating pipelines after a spectral-setting change,
    # so that the counter difference measured around group.observe() counts observations only
    try:
        o.observe()
    except Exception:  # noqa  (e.g. a member that is not attached to the group: the counters will tell)
        pass


CALLER_MUTATIONS = ('append', 'reverse', 'pop', 'setitem', 'clear')


def mutate_in_place(v, extra, how):
    """change a list / ndarray in place; returns False when the mutation is not applicable"""
    if isinstance(v, list):
        if how == 'append':
            v.append(extra)
        elif how == 'reverse':
            if len(v) < 2:
                return False
            v.reverse()
        elif how == 'pop':
            if not v:
                return False
            v.pop()
        elif how == 'setitem':
            if not v:
                return False
            v[0] = extra
        elif how == 'clear':
            if not v:
                return False
            v.clear()
        return True
    if isinstance(v, np.ndarray) and v.size:
        if how == 'reverse' and v.size >= 2:
            v[:] = v[::-1].copy()
            return True
        if how == 'setitem':
            try:
                v[0] = extra
            except Exception:  # noqa
                v[0] = v[-1]
            return True
        if how == 'clear':
            v[:] = v[-1]
            return True
    return False


def _samples(o):
    p = o.pipelines[0]
    if hasattr(p, 'value'):
        return int(p.value.samples) if p.value is not None else 0
    return int(p.samples.samples[0]) if p.samples is not None else 0


# =====================================================================================================================
def group_value(im, name, kind, n, rng):
    """python value for `group.<name> = value` of a given kind, for a group of n members"""
    mattr = expected_member(name)
    mv = lambda: im.member_value(mattr)
    numeric = lambda xs: all(isinstance(x, (int, float, bool)) and not isinstance(x, str) for x in xs)
    if kind == 'scalar':
        if name == 'pipelines':
            return mv()[0]                 # a pipeline object: unsized
        return mv()
    if kind == 'badscalar':
        return im.bad_value(mattr)
    m = {'list': n, 'tuple': n, 'ndarray': n, 'len0': 0, 'len-1': n - 1, 'len+1': n + 1, 'len+2': n + 2, 'poison': n}[kind]
    if m < 0 or (kind == 'len0' and n == 0):
        return None
    xs = [mv() for _ in range(m)]
    if kind == 'poison':
        b = im.bad_value(mattr)
        if b is None or n == 0:
            return None
        xs[rng.randrange(n)] = b
    if kind == 'ndarray':
        if not numeric(xs):
            return None
        return np.array(xs)
    if kind in ('tuple',) or (kind.startswith('len') and rng.random() < 0.4):
        return tuple(xs)
    return xs


ASSIGN_KINDS = ['scalar', 'list', 'tuple', 'ndarray', 'len0', 'len-1', 'len+1', 'len+2', 'poison', 'badscalar']


def sweep(ctx, im, t):
    """exhaustive: every broadcast attribute x every value kind x group sizes 0..4"""
    rng = ctx.rng
    for name in im.bcast:
        for n in range(5):
            h = History(im, t, ctx, 'sweep:%s:%d' % (name, n))
            for i in range(n):
                h.add(make_member(im.member_kind, str(i)))
            h.read(name)
            for kind in ASSIGN_KINDS:
                v = group_value(im, name, kind, n, rng)
                if v is None and kind != 'scalar':
                    continue
                h.assign(name, v, kind)
                h.read(name)
                if kind in ('list', 'ndarray', 'len+1') and isinstance(v, (list, np.ndarray)):
                    h.mutate_caller(v, im.member_value(expected_member(name)), rng.choice(CALLER_MUTATIONS), name)
            # idempotence / last write wins on the implementation
            v = group_value(im, name, 'list', n, rng)
            h.assign(name, v, 'list')
            h.assign(name, v, 'list')
            h.read(name)


def membership(ctx, im, t):
    rng = ctx.rng
    for n in range(5):
        h = History(im, t, ctx, 'members:%d' % n)
        ms = [make_member(im.member_kind, str(i)) for i in range(n)]
        for o in ms:
            h.add(o)
        h.length()
        for wk in im.wrong_kinds:
            h.add(make_member(wk), 'wrong-type:' + wk)
        h.length()
        names = ['m%d' % i for i in range(n)]
        if 'names' in im.desc:
            h.assign('names', names, 'list')
        else:
            for o, nm in zip(ms, names):
                h.poke(o, 'name', nm)
        for i in range(-n - 2, n + 3):
            h.item(i)
        for key in (slice(None), slice(1, 3), slice(0, n), slice(None, None, -1), slice(-2, None), slice(0, 10, 2), slice(3, 1, -1),
                    slice(1, 1), slice(None, None, 0), slice(-100, 100), slice(n, None, -2)):
            h.item(key)
        for nm in names + ['nobody']:
            h.item(nm)
        for key in (1.5, None, (0, 1), True):
            if key is True:
                continue           # bool is an int for Python; not part of the claim
            h.item(key)
        # rename directly on a member, duplicate names
        if n >= 2:
            h.poke(ms[0], 'name', 'm1')
            h.item('m1')
            h.item('m0')
            if 'names' in im.desc:
                h.read('names')
        # member-list assignment
        for ml in im.mlist:
            h.read(ml)
            fresh = [make_member(im.member_kind, 'f%d' % i) for i in range(rng.randint(0, 3))]
            for how in CALLER_MUTATIONS:
                v = h.setm(ml, list(fresh), 'L')
                h.mutate_caller(v, make_member(im.member_kind, 'late'), how, ml)
                h.length()
                h.item(-1)
            v = h.setm(ml, fresh, 'L')
            h.add(make_member(im.member_kind, 'after-setm'))        # must not reach the caller's list either (S checks the list)
            h.setm(ml, fresh, 'L')
            h.read(ml)
            h.setm(ml, list(reversed(fresh)) + ms[:1], 'T')
            h.read(ml)
            wrong = make_member(im.wrong_kinds[0])
            h.setm(ml, ms[:1] + [wrong] + ms[1:2], 'L')
            h.read(ml)
            h.setm(ml, [wrong], 'L')
            h.setm(ml, ms[:1], '-')
            h.setm(ml, [], 'L')
            h.length()
            h.setm(ml, ms, 'L')
            # members re-parented behind the group's back, then listed again: the assignment must bring them home
            if n >= 2:
                from raysect.optical import World
                h.reparent(ms[0], None, 'None')
                h.reparent(ms[1], World(), 'world')
                h.setm(ml, list(ms), 'L')
                h.reparent(ms[-1], None, 'None')
                h.setm(ml, list(reversed(ms)), 'T' if 'tuple' in (h.im.desc[ml]['setter'] or {}).get('kinds', ['tuple']) else 'L')
                h.setm(ml, ms, 'L')
        # the constructor as a second entry point (Observer0DGroup family): right types, a wrong object in front / in the
        # middle / at the end, duplicates, nothing; then the retrieval operations on what it left behind
        if im.c['family'] == 'observer0D':
            wrong = make_member(im.wrong_kinds[0])
            late = make_member(im.member_kind, 'ctor-late')
            for what, objs in (('members', list(ms)), ('reversed+new', list(reversed(ms)) + [late]), ('empty', []),
                               ('wrong-first', [wrong] + ms), ('wrong-middle', ms[:1] + [wrong] + ms[1:]),
                               ('wrong-last', ms + [make_member(im.wrong_kinds[-1])]), ('duplicate', ms[:1] + ms),
                               ('members-again', list(ms))):
                h.construct(objs, what)
                h.item(0)
                h.item(-1)
                h.item(slice(None, None, -1))
                for ml in im.mlist:
                    h.read(ml)
        if im.bcast:
            h.read(im.bcast[0])
        h.observe()
        # the same observer twice
        if n >= 1:
            h.add(ms[0], 'duplicate')
            if im.bcast:
                nm = [b for b in im.bcast if b not in ('names', 'pipelines', 'targets')]
                if nm:
                    a = rng.choice(nm)
                    v = group_value(im, a, 'list', len(im.members(h.g)), rng)
                    if v is not None:
                        h.assign(a, v, 'list-with-duplicate-member')
                        h.read(a)
            h.observe()


def random_histories(ctx, im, t, count, length):
    rng = ctx.rng
    for k in range(count):
        h = History(im, t, ctx, 'random:%d' % k)
        pool = [make_member(im.member_kind, str(i)) for i in range(5)]
        nxt = 0
        for _ in range(rng.randint(0, 4)):
            h.add(pool[nxt]); nxt += 1
        for _ in range(length):
            n = len(im.members(h.g))
            r = rng.random()
            if r < 0.45 and im.bcast:
                name = rng.choice(im.bcast)
                kind = rng.choice(ASSIGN_KINDS)
                v = group_value(im, name, kind, n, rng)
                if v is None and kind != 'scalar':
                    continue
                h.assign(name, v, kind)
                if rng.random() < 0.5:
                    h.read(name)
                if isinstance(v, (list, np.ndarray)) and rng.random() < 0.3:
                    h.mutate_caller(v, im.member_value(expected_member(name)), rng.choice(CALLER_MUTATIONS), name)
            elif r < 0.6 and im.bcast:
                h.read(rng.choice(list(im.desc)))
            elif r < 0.68:
                if nxt < len(pool) and n < 4:
                    h.add(pool[nxt]); nxt += 1
                else:
                    h.add(make_member(rng.choice(im.wrong_kinds)), 'wrong-type')
            elif r < 0.74 and im.mlist:
                objs = rng.sample(pool, rng.randint(0, 4))
                if rng.random() < 0.25:
                    objs.insert(rng.randint(0, len(objs)), make_member(rng.choice(im.wrong_kinds)))
                ml = rng.choice(im.mlist)
                v = h.setm(ml, objs, rng.choice(['L', 'L', 'T', '-']))
                if isinstance(v, list) and rng.random() < 0.5:
                    h.mutate_caller(v, make_member(im.member_kind, 'late'), rng.choice(CALLER_MUTATIONS), ml)
                nxt = len(pool)
            elif r < 0.86:
                c = rng.random()
                if c < 0.4:
                    h.item(rng.randint(-n - 1, n + 1))
                elif c < 0.7:
                    f = lambda: rng.choice([None, rng.randint(-n - 2, n + 2)])
                    h.item(slice(f(), f(), rng.choice([None, 1, -1, 2, -2, 3])))
                else:
                    h.item(rng.choice(['alpha', 'beta', 'gamma', 'delta', 'n1', 'zz']))
            elif r < 0.92 and n:
                o = rng.choice(im.members(h.g))
                a = rng.choice([x for x in im.mattrs if x not in ('pipelines', 'targets', 'render_engine')])
                h.poke(o, a, im.member_value(a))
            elif r < 0.96:
                h.length()
            else:
                h.observe()


# =====================================================================================================================
def translator_vs_runtime(ctx, sc):
    """the property objects Python built vs the translator's class-body simulation (fget/fset function names, presence)"""
    n = 0
    for c in sc['classes']:
        mod = importlib.import_module(c['file'][:-3].replace('/', '.'))
        cls = getattr(mod, c['name'])
        desc = {d['name']: d for d in sc['table'] if d['cls'] == c['name']}
        rt = {k: v for k, v in inspect.getmembers(cls, lambda x: isinstance(x, property))}
        for name, p in rt.items():
            d = desc.get(name)
            n += 1
            if d is None:
                # read-only views that do not read the member container are deliberately not in the table
                if p.fset is not None:
                    ctx.broke('correspondence', 'translator-vs-runtime', dict(cls=c['name'], attr=name, detail='property with a setter missing from the generated table'))
                continue
            want = (p.fget.__name__, p.fset.__name__ if p.fset else None)
            s = d['setter']
            got = (d['getterFn'], s['fnName'] if s else None)
            owner = [k.__name__ for k in cls.__mro__ if name in vars(k)][0]
            if want != got or owner != d['definedIn']:
                ctx.disagreements += 1
                ctx.broke('correspondence', 'translator-vs-runtime', dict(cls=c['name'], attr=name, runtime=want + (owner,), table=got + (d['definedIn'],)))
        for name in desc:
            if name not in rt:
                ctx.broke('correspondence', 'translator-vs-runtime', dict(cls=c['name'], attr=name, detail='descriptor for something that is not a property at run time'))
        acc = getattr(cls, '_OBSERVER_TYPE', None)
        if acc is not None and [acc.__name__] != c['accepted']:
            ctx.broke('correspondence', 'translator-vs-runtime', dict(cls=c['name'], detail='_OBSERVER_TYPE', runtime=acc.__name__, table=c['accepted']))
    ctx.count('K:translator-vs-runtime', n)
    return n


# =====================================================================================================================
# S: direct oracles, no model
def guarded(ctx, what, f, default=None):
    """run one oracle; an exception while preparing inputs / reference values is an *observation* (the implementation no
    longer lets the harness do what works on the unchanged tree): recorded as a broken stream, never propagated"""
    try:
        return f()
    except Exception as e:  # noqa
        import traceback
        ctx.count('S:oracle-not-evaluable')
        ctx.broke('correspondence', 'C15 oracle %s could not be evaluated (%s)' % (what, exc_kind(e)),
                  dict(trace=traceback.format_exc()[-1500:]))
        return default


def search(ctx, sc, only=None):
    rng = ctx.rng
    U = Universe()
    for c in sc['classes']:
        if only and c['name'] != only[0]:
            continue
        made = guarded(ctx, 'setup of ' + c['name'], lambda: _setup(c, sc, U, rng))
        if made is None:
            continue
        cls, im, props = made
        for attr in props:
            if only and (c['name'], attr) != tuple(only[:2]):
                continue
            if attr == 'slits':
                continue
            what = '%s.%s' % (c['name'], attr)
            if attr in MEMBER_LIST_ATTRS:
                guarded(ctx, what + ' aliasing', lambda: search_alias_members(ctx, im, cls, attr))
                continue
            for n in (0, 1, 3, 4):
                if not guarded(ctx, what, lambda: search_attr(ctx, im, cls, attr, n), default=False):
                    break
            else:
                guarded(ctx, what + ' aliasing', lambda: search_alias_values(ctx, im, cls, attr))
        if not only or only[1] in ('pipelines', 'connect_pipelines', 'accumulate', 'display_progress'):
            guarded(ctx, c['name'] + ' pipeline configurations', lambda: search_pipeline_configs(ctx, im, cls))
        if not only or only[1] in ('__getitem__', 'add', 'observe', 'parent', 'add_observer', 'add_sight_line', 'add_foil_detector', '__init__') + MEMBER_LIST_ATTRS:
            guarded(ctx, c['name'] + ' type filter', lambda: search_type_filter(ctx, im, cls))
            guarded(ctx, c['name'] + ' two groups', lambda: search_two_groups(ctx, im, cls))
            guarded(ctx, c['name'] + ' re-parented behind the back', lambda: search_reparent_behind_back(ctx, im, cls))
            guarded(ctx, c['name'] + ' observe with look-alike members', lambda: search_observe_duplicates(ctx, im, cls))
            guarded(ctx, c['name'] + ' rejected operations', lambda: search_rejected_ops(ctx, im, cls))
            guarded(ctx, c['name'] + ' membership', lambda: search_membership(ctx, im, cls))
            guarded(ctx, c['name'] + ' retrieval histories', lambda: search_retrieval_histories(ctx, im, cls))


def _setup(c, sc, U, rng):
    mod = importlib.import_module(c['file'][:-3].replace('/', '.'))
    cls = getattr(mod, c['name'])
    im = Impl(c, sc['table'], U, rng)
    props = [k for k, v in inspect.getmembers(cls, lambda x: isinstance(x, property)) if not k.startswith('_')]
    return cls, im, props


class _PlainObserver0D(object):
    """built lazily: a concrete Observer0D subclass that is none of the group member types"""
    cls = None

    @classmethod
    def make(cls_):
        if cls_.cls is None:
            from raysect.optical.observer import Observer0D

            class PlainObserver0D(Observer0D):
                pass
            cls_.cls = PlainObserver0D
        from raysect.optical.observer import PowerPipeline0D
        return cls_.cls(pipelines=[PowerPipeline0D()])


CANDIDATE_KINDS = ('SightLine', 'FibreOptic', 'Pixel', 'TargettedPixel', 'SpectroscopicSightLine', 'SpectroscopicFibreOptic',
                   'BolometerFoil', 'PlainObserver0D', 'Sphere', 'int')


def search_type_filter(ctx, im, cls):
    """"only observers of the group's type are accepted": every entry point (add method, its alias, the constructor's
    `observers=` argument, the member-list setters) x every concrete candidate type.  The group's type is what the running
    class declares (`_OBSERVER_TYPE`; BolometerFoil / BolometerIRVB for the camera).  A candidate of the type must be
    accepted; any other must be rejected by an exception, must not become a member and must not be re-parented."""
    if im.accepted_rt is not None:
        accepted = im.accepted_rt
    else:
        from cherab.tools.observers.bolometry import BolometerFoil, BolometerIRVB
        accepted = (BolometerFoil, BolometerIRVB)
    add_names = [a for a in ('add_observer', 'add_sight_line', 'add_foil_detector') if hasattr(cls, a)]
    entries = [(a, (lambda g, o, a=a: getattr(g, a)(o))) for a in add_names]
    entries += [(ml, (lambda g, o, ml=ml: setattr(g, ml, [o]))) for ml in im.mlist]
    if im.c['family'] == 'observer0D':
        entries.append(('__init__', None))
    reported = set()
    for kind in CANDIDATE_KINDS:
        for entry, f in entries:
            if entry in reported:
                continue         # one report per (class, entry point)
            cand = _PlainObserver0D.make() if kind == 'PlainObserver0D' else make_member(kind, 'cand')
            own = isinstance(cand, accepted)
            good = make_member(im.member_kind, 'good')
            ctx.case(key=('S', im.name, 'type-filter', entry, kind))
            if entry == '__init__':
                g = None
                try:
                    g = cls(observers=[good, cand])
                    st = 'ok'
                except Exception as e:  # noqa
                    st = ename(exc_kind(e))
                members = im.members(g) if g is not None else []
            else:
                g = cls()
                im.add(g, good)
                st = outcome(lambda: f(g, cand))
                members = im.members(g)
            is_member = any(m is cand for m in members)
            adopted = g is not None and getattr(cand, 'parent', None) is g
            rep = dict(cls=im.name, attr=entry, candidate=kind, outcome=st)
            if own:
                if st != 'ok' or not is_member or not adopted:
                    ctx.fail('C15:%s.%s:rejects-own-type' % (im.name, entry), '%s.%s refuses a %s although it is a %s (%s)' % (
                        im.name, entry, kind, '/'.join(a.__name__ for a in accepted), st), rep)
                    reported.add(entry)
            else:
                unchanged = entry == '__init__' or (entry in im.mlist and _same_objs(members, [good])) or _same_objs(members, [good])
                if st == 'ok' or is_member or adopted or not unchanged:
                    ctx.fail('C15:%s.%s:accepts-wrong-type' % (im.name, entry),
                             '%s.%s with a %s (not a %s): outcome %s, became a member: %s, re-parented to the group: %s' % (
                                 im.name, entry, kind, '/'.join(a.__name__ for a in accepted), st, is_member, adopted), rep)
                    reported.add(entry)


def _ref(im, mattr, v):
    """what a lone observer reports after `observer.mattr = v`"""
    try:
        setattr(im.scratch, mattr, v)
        return im.U.canon(mattr, getattr(im.scratch, mattr))
    finally:
        im.unshare(mattr)


def _has(im, mattr):
    try:
        getattr(im.scratch, mattr)
        return True
    except Exception:  # noqa
        return False


def search_attr(ctx, im, cls, attr, n, configure=None):
    U = im.U
    mattr = expected_member(attr)
    sig = 'C15:%s.%s:' % (im.name, attr)
    members = [make_member(im.member_kind, str(i)) for i in range(n)]
    g = cls()
    for o in members:
        im.add(g, o)
    if configure is not None:
        configure(g, members)
    rep = dict(cls=im.name, attr=attr, n=n)
    ctx.case(key=('S', im.name, attr, n))

    def cur():
        return [U.canon(mattr, getattr(o, mattr)) for o in members]

    def whole():
        return [[U.canon(a, getattr(o, a, None)) for a in im.mattrs] for o in members]

    # --- read -----------------------------------------------------------------------------------------------------
    try:
        got = [U.canon(mattr, x) for x in getattr(g, attr)]
    except Exception as e:  # noqa
        ctx.fail(sig + 'read', 'reading %s.%s raises %s' % (im.name, attr, exc_kind(e)), dict(rep, clause='read'))
        return False
    try:
        want = cur()
    except AttributeError:
        return True            # members of this type do not have the attribute at all: nothing to claim
    if got != want:
        ctx.fail(sig + 'read', 'group.%s returns %s but the members\' %s are %s (n=%d)' % (attr, got, mattr, want, n), dict(rep, clause='read'))
        return False
    if not _has(im, mattr):
        return True            # a lone observer of the member type has no such attribute: no reference to compare with
    desc = im.desc.get(attr)
    kinds = []
    if desc and desc['setter'] and desc['setter'].get('test'):
        kinds = desc['setter']['test'].get('kinds') or []
    # --- scalar ---------------------------------------------------------------------------------------------------
    if attr not in ('names', 'pipelines'):
        x = im.member_value(mattr)
        want = _ref(im, mattr, x)
        st = outcome(lambda: setattr(g, attr, x))
        if st != 'ok':
            ctx.fail(sig + 'scalar', '%s(%d members).%s = %r raises %s' % (im.name, n, attr, x, st), dict(rep, clause='scalar', value=repr(x), raised=st))
            return False
        if cur() != [want] * n:
            ctx.fail(sig + 'scalar', '%s.%s = %r: members hold %s, expected %s each' % (im.name, attr, x, cur(), want), dict(rep, clause='scalar', value=repr(x)))
            return False
    # --- element-wise ------------------------------------------------------------------------------------------------
    forms = [('list', list), ('tuple', tuple)]
    if 'ndarray' in kinds:
        forms.append(('ndarray', np.array))
    for fname, f in forms:
        xs = [im.member_value(mattr) for _ in range(n)]
        if fname == 'ndarray' and not all(isinstance(x, (int, float, bool)) for x in xs):
            continue
        want = [_ref(im, mattr, x) for x in xs]
        v = f(xs)
        st = outcome(lambda: setattr(g, attr, v))
        if st != 'ok':
            ctx.fail(sig + 'elementwise', '%s(%d members).%s = %s%r raises %s' % (im.name, n, attr, fname, xs, st), dict(rep, clause='elementwise', form=fname, value=repr(xs), raised=st))
            return False
        if cur() != want:
            ctx.fail(sig + 'elementwise', '%s.%s = %s%r: members hold %s, expected %s' % (im.name, attr, fname, xs, cur(), want), dict(rep, clause='elementwise', form=fname, value=repr(xs)))
            return False
        try:
            back = [U.canon(mattr, x) for x in getattr(g, attr)]
        except Exception as e:  # noqa
            back = exc_kind(e)
        if back != want:
            ctx.fail(sig + 'read', 'after %s.%s = %r reading returns %s, expected %s' % (im.name, attr, xs, back, want), dict(rep, clause='read-back', value=repr(xs)))
            return False
    # --- wrong length ------------------------------------------------------------------------------------------------
    for m in sorted({0, n + 1, n - 1, n + 3} - {n, -1}):
        for fname, f in forms[:2]:
            xs = [im.member_value(mattr) for _ in range(m)]
            before = whole()
            v = f(xs)
            st = outcome(lambda: setattr(g, attr, v))
            if attr == 'targets' and m > 0:
                continue          # a flat list of primitives is the documented shared form; lists of lists are tested below
            if st != 'ValueError' or whole() != before:
                ctx.fail(sig + 'wrong-length', '%s(%d members).%s = %s of length %d: outcome %s, members %s' % (
                    im.name, n, attr, fname, m, st, 'unchanged' if whole() == before else 'CHANGED'), dict(rep, clause='wrong-length', form=fname, length=m, raised=st))
                return False
    if attr == 'targets':
        for m in sorted({n + 1, n - 1, n + 3} - {n, -1, 0}):
            xs = [im.member_value(mattr) for _ in range(m)]
            before = whole()
            st = outcome(lambda: setattr(g, attr, xs))
            if st != 'ValueError' or whole() != before:
                ctx.fail(sig + 'wrong-length', 'targets = %d lists for %d pixels: outcome %s' % (m, n, st), dict(rep, clause='wrong-length', length=m, raised=st))
                return False
    return True


def _same_objs(a, b):
    return len(a) == len(b) and all(x is y for x, y in zip(a, b))


def search_alias_members(ctx, im, cls, attr):
    """aliasing histories for the member-list attributes: the group must not keep (or hand out) a reference through
    which its membership can be changed behind its back, and group operations must not change the caller's list"""
    sig = 'C15:%s.%s:' % (im.name, attr)
    for n in (0, 2, 3):
        for how in CALLER_MUTATIONS:
            ctx.case(key=('S', im.name, attr, 'alias', how, n))
            g = cls()
            ms = [make_member(im.member_kind, str(i)) for i in range(n)]
            L = list(ms)
            if outcome(lambda: setattr(g, attr, L)) != 'ok':
                return
            rep = dict(cls=im.name, attr=attr, n=n, mutation=how)
            if not _same_objs(L, ms):
                ctx.fail(sig + 'aliases-caller-list', '%s.%s = L changed the caller\'s list L itself' % (im.name, attr), dict(rep, clause='setter-mutates-argument'))
                return
            extra = make_member(im.member_kind, 'late')
            if not mutate_in_place(L, extra, how):
                continue
            now = im.members(g)
            try:
                read = list(getattr(g, attr))
            except Exception:  # noqa
                read = None
            okk = _same_objs(now, ms) and len(g) == n and read is not None and _same_objs(read, ms) and all(o.parent is g for o in now) \
                and all(g[i] is ms[i] for i in range(n))
            if not okk:
                ctx.fail(sig + 'aliases-caller-list',
                         '%s(%d members).%s = L; L.%s(...) afterwards changed the group: members %s -> %s, parents %s' % (
                             im.name, n, attr, how, [im.U.uid(o) for o in ms], [im.U.uid(o) for o in now],
                             [getattr(o, 'parent', None) is g for o in now]), dict(rep, clause='caller-mutation'))
                return
        # group operations leave the caller's list alone
        g = cls()
        ms = [make_member(im.member_kind, str(i)) for i in range(n)]
        L = list(ms)
        if outcome(lambda: setattr(g, attr, L)) != 'ok':
            return
        extra = make_member(im.member_kind, 'late')
        st = outcome(lambda: im.add(g, extra))
        if not _same_objs(L, ms):
            ctx.fail(sig + 'aliases-caller-list', '%s.%s = L; adding a member to the group (%s) changed the caller\'s list L: %d -> %d elements' % (
                im.name, attr, st, n, len(L)), dict(cls=im.name, attr=attr, n=n, clause='add-mutates-argument'))
            return
        other = [make_member(im.member_kind, 'o')]
        outcome(lambda: setattr(g, attr, other))
        if not _same_objs(L, ms):
            ctx.fail(sig + 'aliases-caller-list', '%s.%s = L; a second assignment changed the first list' % (im.name, attr),
                     dict(cls=im.name, attr=attr, n=n, clause='reassign-mutates-argument'))
            return
        # ... and the value handed out by the getter is not a handle on the membership either
        g = cls()
        ms = [make_member(im.member_kind, str(i)) for i in range(n)]
        if outcome(lambda: setattr(g, attr, list(ms))) != 'ok':
            return
        r = getattr(g, attr)
        if isinstance(r, list):
            r.append(make_member(im.member_kind, 'late'))
            r.reverse()
            if not _same_objs(im.members(g), ms):
                ctx.fail(sig + 'aliases-returned-list', 'changing the list returned by %s.%s changes the group\'s membership' % (im.name, attr),
                         dict(cls=im.name, attr=attr, n=n, clause='getter-aliases'))
                return


def search_alias_values(ctx, im, cls, attr):
    """aliasing histories for the per-attribute sequences (incl. names, pipelines, targets): the caller keeps the list /
    ndarray it assigned and changes it; members must keep what they were given, and the setter must not change the argument"""
    U = im.U
    mattr = expected_member(attr)
    sig = 'C15:%s.%s:' % (im.name, attr)
    desc = im.desc.get(attr)
    if not desc or not desc['setter']:
        return
    kinds = (desc['setter'].get('test') or {}).get('kinds') or []
    for n in (2, 3):
        members = [make_member(im.member_kind, str(i)) for i in range(n)]
        g = cls()
        for o in members:
            im.add(g, o)

        def cur():
            return [U.canon(mattr, getattr(o, mattr)) for o in members]

        forms = ['list'] + (['ndarray'] if 'ndarray' in kinds else [])
        for form in forms:
            for how in CALLER_MUTATIONS + ('inner-append', 'inner-clear'):
                xs = [im.member_value(mattr) for _ in range(n)]
                if form == 'ndarray':
                    if not all(isinstance(x, (int, float, bool)) for x in xs):
                        break
                    V = np.array(xs)
                    keep = V.copy()
                else:
                    V = list(xs)
                    keep = list(xs)
                inner_keep = [list(x) if isinstance(x, list) else None for x in xs]
                ctx.case(key=('S', im.name, attr, 'alias', form, how, n))
                if outcome(lambda: setattr(g, attr, V)) != 'ok':
                    return
                rep = dict(cls=im.name, attr=attr, n=n, form=form, mutation=how)
                unchanged = (np.array_equal(V, keep) if form == 'ndarray' else _same_objs(V, keep)) and \
                    all(k is None or _same_objs(x, k) for x, k in zip(xs, inner_keep))
                if not unchanged:
                    ctx.fail(sig + 'aliases-caller-list', '%s.%s = V changed the caller\'s %s V itself' % (im.name, attr, form), dict(rep, clause='setter-mutates-argument'))
                    return
                before = cur()
                extra = im.member_value(mattr)
                if how.startswith('inner-'):
                    if not isinstance(xs[0], list):
                        continue
                    if how == 'inner-append':
                        xs[0].append(extra[0] if isinstance(extra, list) else extra)
                    else:
                        xs[0].clear()
                elif not mutate_in_place(V, extra, how):
                    continue
                try:
                    back = [U.canon(mattr, x) for x in getattr(g, attr)]
                except Exception as e:  # noqa
                    back = exc_kind(e)
                if cur() != before or back != before:
                    ctx.fail(sig + 'aliases-caller-list', '%s(%d members).%s = V (%s); V %s afterwards changed the members\' values: %s -> %s (read %s)' % (
                        im.name, n, attr, form, how, before, cur(), back), dict(rep, clause='caller-mutation'))
                    return
        if attr == 'targets':            # the shared (flat) form
            for how in CALLER_MUTATIONS:
                V = im.member_value(mattr)
                if outcome(lambda: setattr(g, attr, V)) != 'ok':
                    return
                before = cur()
                if not mutate_in_place(V, im.member_value(mattr)[0], how):
                    continue
                if cur() != before:
                    ctx.fail(sig + 'aliases-caller-list', '%s.targets = flat list V; V %s afterwards changed the pixels\' targets' % (im.name, how),
                             dict(cls=im.name, attr=attr, n=n, form='flat', mutation=how, clause='caller-mutation'))
                    return


# ---------------------------------------------------------------------------------------------------------------------
# round 5
PIPELINE_CONFIGS = (('Power',), ('Radiance',), ('SpectralPower',), ('SpectralRadiance',), ('Radiance', 'SpectralPower'),
                    ('Power', 'Power', 'SpectralRadiance'), ('SpectralRadiance', 'Radiance', 'Power'))


def _pipeline_classes(cfg):
    from raysect.optical.observer import PowerPipeline0D, RadiancePipeline0D, SpectralPowerPipeline0D, SpectralRadiancePipeline0D
    m = dict(Power=PowerPipeline0D, Radiance=RadiancePipeline0D, SpectralPower=SpectralPowerPipeline0D, SpectralRadiance=SpectralRadiancePipeline0D)
    return [m[c] for c in cfg]


def configure_pipelines(im, g, members, cfg, how):
    """give every member the pipeline configuration `cfg` through the group API; returns None or a complaint"""
    classes = _pipeline_classes(cfg)
    if how == 'setter':
        g.pipelines = [[c() for c in classes] for _ in members]
    elif im.spectro:
        g.connect_pipelines([(c, 'p%d' % i, None) for i, c in enumerate(classes)])
    else:
        g.connect_pipelines(list(classes), [dict(name='p%d' % i) for i in range(len(classes))])
    seen = set()
    for o in members:
        ps = list(o.pipelines)
        if [type(p) for p in ps] != classes:
            return 'member has pipelines %s, expected %s' % ([type(p).__name__ for p in ps], list(cfg))
        if any(id(p) in seen for p in ps):
            return 'two members share a pipeline object'
        seen.update(id(p) for p in ps)
    return None


def search_pipeline_configs(ctx, im, cls):
    """(a) every broadcast attribute, assigned and read with every pipeline configuration the group API can produce (mono,
    spectral, mixed, several per member; through `pipelines =` and through `connect_pipelines`).  For the attributes that
    live on the pipelines (`accumulate`, `display_progress` of the deprecated spectroscopic groups) the reference is the
    pipeline objects themselves, not the member's own getter/setter (cherab/tools/observers/spectroscopy/base.py is code the
    property depends on): after `group.attr = v` every pipeline of member i that has the attribute holds v_i, and the group
    read lists, per member and pipeline, that value (None for pipelines without the attribute)."""
    if im.c['family'] != 'observer0D' or 'pipelines' not in im.desc:
        return
    sigc = 'C15:%s.' % im.name
    for cfg in PIPELINE_CONFIGS:
        for how in ('setter', 'connect'):
            n = 2
            members = [make_member(im.member_kind, str(i)) for i in range(n)]
            g = cls()
            for o in members:
                im.add(g, o)
            ctx.case(key=('S', im.name, 'pipeline-config', cfg, how))
            try:
                bad = configure_pipelines(im, g, members, cfg, how)
            except Exception as e:  # noqa
                bad = 'raises ' + exc_kind(e)
            if bad:
                ctx.fail(sigc + ('connect_pipelines' if how == 'connect' else 'pipelines') + ':configuration',
                         '%s: configuring %s through %s: %s' % (im.name, list(cfg), how, bad), dict(cls=im.name, attr='pipelines', config=list(cfg), how=how))
                return
            # attributes stored on the pipelines
            for attr in ('accumulate', 'display_progress'):
                d = im.desc.get(attr)
                if not d or d['getter'].get('attr') != attr:
                    continue
                for form, values in (('scalar', [True, True]), ('scalar', [False, False]), ('list', [True, False]), ('tuple', [False, True])):
                    v = values[0] if form == 'scalar' else (list(values) if form == 'list' else tuple(values))
                    st = outcome(lambda: setattr(g, attr, v))
                    rep = dict(cls=im.name, attr=attr, config=list(cfg), how=how, form=form, value=repr(v))
                    if st != 'ok':
                        ctx.fail(sigc + attr + ':pipeline-configuration', '%s with pipelines %s: %s = %r raises %s' % (im.name, list(cfg), attr, v, st), rep)
                        return
                    held = [[(getattr(p, attr) if hasattr(p, attr) else None) for p in o.pipelines] for o in members]
                    want = [[(values[i] if hasattr(p, attr) else None) for p in o.pipelines] for i, o in enumerate(members)]
                    try:
                        read = [list(x) for x in getattr(g, attr)]
                    except Exception as e:  # noqa
                        read = exc_kind(e)
                    if held != want or read != want:
                        ctx.fail(sigc + attr + ':pipeline-configuration',
                                 '%s, members with pipelines %s (via %s): after group.%s = %r the pipelines hold %s and the group reads %s; expected %s' % (
                                     im.name, list(cfg), how, attr, v, held, read, want), rep)
                        return
            # every other broadcast attribute with this configuration (reference: a lone observer configured the same way)
            try:
                im.scratch.pipelines = [c() for c in _pipeline_classes(cfg)]
            except Exception:  # noqa
                continue
            try:
                for attr in im.bcast:
                    if attr in ('pipelines', 'accumulate', 'display_progress') or im.desc[attr]['getter'].get('attr') != expected_member(attr):
                        continue
                    if not search_attr(ctx, im, cls, attr, n, configure=lambda g_, ms_: configure_pipelines(im, g_, ms_, cfg, how)):
                        return
            finally:
                im.scratch.pipelines = im._scratch_pipes


def search_reparent_behind_back(ctx, im, cls):
    """(b) member-list assignment after members were re-parented behind the group's back (to None, to the world, borrowed by
    another group): after `group.<members> = [...]` every listed observer has the group as scene-graph parent again and is
    among its children - whatever its parent was before, and whether or not it already was a member."""
    from raysect.optical import World
    sig = 'C15:%s.' % im.name
    for ml in im.mlist:
        for layout in ('same', 'permuted', 'subset+new'):
            world = World()
            g = cls(parent=world)
            borrower = cls(parent=world)
            a, b, c, d = (make_member(im.member_kind, t) for t in 'abcd')
            for o in (a, b, c, d):
                im.add(g, o)
            a.parent = None                      # detached
            b.parent = world                     # moved to the world
            im.add(borrower, c)                  # borrowed by a second group (d stays untouched)
            fresh = make_member(im.member_kind, 'e')
            new = {'same': [a, b, c, d], 'permuted': [c, a, d, b], 'subset+new': [b, fresh, c, a]}[layout]
            ctx.case(key=('S', im.name, 'reparent-behind-back', ml, layout))
            st = outcome(lambda: setattr(g, ml, list(new)))
            if st != 'ok':
                ctx.fail(sig + ml + ':stale-parent-after-reassignment', '%s.%s = %s members (some re-parented elsewhere before) raises %s' % (im.name, ml, layout, st),
                         dict(cls=im.name, attr=ml, layout=layout, raised=st))
                break
            wrong = [k for k, o in zip('abcde', (a, b, c, d, fresh)) if any(o is x for x in new) and (o.parent is not g or o not in g.children)]
            if wrong or not _same_objs(im.members(g), new):
                ctx.fail(sig + ml + ':stale-parent-after-reassignment',
                         '%s: a.parent = None; b.parent = world; other_group adopts c; then group.%s = [%s]: listed observers %s do not have the group as parent '
                         '(parents: %s)' % (im.name, ml, layout, wrong, {k: ('group' if o.parent is g else 'None' if o.parent is None else type(o.parent).__name__)
                                                                         for k, o in zip('abcde', (a, b, c, d, fresh)) if any(o is x for x in new)}),
                         dict(cls=im.name, attr=ml, layout=layout, stale=wrong))
                break


def search_observe_duplicates(ctx, im, cls):
    """(c) observe() with members that look alike: distinct observers sharing one name and all settings.  Every member is
    observed exactly once (sample counters of accumulating pipelines); for the camera, which returns measurements, element
    i of the returned list is member i's own measurement (an emitter makes the detectors' powers differ)."""
    from raysect.core import translate
    from raysect.optical import World, ConstantSF
    from raysect.optical.material import UniformVolumeEmitter
    from raysect.primitive import Sphere
    sig = 'C15:%s.' % im.name
    for n, names in ((2, ['dup', 'dup']), (3, ['dup', 'x', 'dup']), (4, ['dup'] * 4)):
        world = World()
        Sphere(2.0, transform=translate(0, 0, 5), material=UniformVolumeEmitter(ConstantSF(1.0)), parent=world)
        g = cls(parent=world)
        ms = [make_member(im.member_kind, str(i)) for i in range(n)]
        for i, (o, nm) in enumerate(zip(ms, names)):
            o.name = nm
            if hasattr(o, 'x_width'):
                o.x_width = 0.001 * (i + 1)          # distinguishable measurements
            im.add(g, o)
        for o in ms:
            prep_observe(g, world, o)
        before = [_samples(o) for o in ms]
        ctx.case(key=('S', im.name, 'observe-duplicates', n))
        try:
            ret = g.observe()
            st = 'ok'
        except Exception as e:  # noqa
            ret, st = None, ename(exc_kind(e))
        delta = [_samples(o) - b for o, b in zip(ms, before)]
        rep = dict(cls=im.name, attr='observe', names=names, n=n)
        if st != 'ok' or delta != [3] * n:
            ctx.fail(sig + 'observe:duplicate-names', '%s with members named %s: observe() %s, samples taken per member %s (3 = observed once)' % (im.name, names, st, delta), rep)
            return
        if ret is not None:
            own = [o.pipelines[0].value.mean for o in ms]
            if list(ret) != own:
                ctx.fail(sig + 'observe:duplicate-names', '%s with members named %s: observe() returned %s, the members\' own measurements are %s' % (im.name, names, list(ret), own), rep)
                return


def search_two_groups(ctx, im, cls):
    """OPEN FINDING probe (deterministic, every tier and seed): an observer that already is a member of a live group of the
    same class is adopted by a second group through each adopting entry point.  The code accepts it, re-parents it, and the
    first group keeps listing it -> the first group has a member whose scene-graph parent it is not.  This is exactly the
    hypothesis excluded in `scene_inv_step` and the negation proved in `cross_group_add_steals` (Props/C15.lean).
    Signature `C15:<defining class>.<entry point>:member-of-two-groups` - keyed on the class that *defines* the entry point
    (one code site each), so an override that does the same in a subclass would be a new signature.  Nothing else is
    attributed to it: every other way of obtaining a member whose parent is not the group stays an ordinary violation."""
    entries = [a for a in ('add_observer', 'add_sight_line', 'add_foil_detector') if hasattr(cls, a)] + list(im.mlist)
    if im.c['family'] == 'observer0D':
        entries.append('__init__')
    for entry in entries:
        owner_cls = [k for k in cls.__mro__ if entry in vars(k)]
        site = (owner_cls[0].__name__ if owner_cls else cls.__name__) + '.' + entry
        g1 = cls()
        o = make_member(im.member_kind, 'shared')
        o.name = 'shared'
        im.add(g1, o)
        g2 = None
        if entry == '__init__':
            try:
                g2 = cls(observers=[o]); st = 'ok'
            except Exception as e:  # noqa
                st = ename(exc_kind(e))
        else:
            g2 = cls()
            if entry in im.mlist:
                st = outcome(lambda: setattr(g2, entry, [o]))
            else:
                st = outcome(lambda: getattr(g2, entry)(o))
        ctx.case(key=('S', im.name, 'two-groups', entry))
        still_listed = any(m is o for m in im.members(g1))
        if st == 'ok' and still_listed and o.parent is not g1 and g2 is not None and o.parent is g2 and any(m is o for m in im.members(g2)):
            ctx.fail('C15:%s:member-of-two-groups' % site,
                     'g1, g2 = %s(), %s(); g1.%s(o); then %s adopts o for g2: accepted, o.parent is g2, but g1 still lists o '
                     '(len(g1) == %d) -> a member of g1 whose scene-graph parent is not g1 (observed with %s)' % (
                         im.name, im.name, 'add_foil_detector' if im.c['family'] == 'bolometer' else 'add_observer',
                         'g2 = %s(observers=[o])' % im.name if entry == '__init__' else ('g2.%s = [o]' % entry if entry in im.mlist else 'g2.%s(o)' % entry),
                         len(g1), im.name),
                     dict(cls=im.name, attr=entry, site=site))
        elif st == 'ok' and still_listed and o.parent is not g1:
            # listed by g1, parent neither g1 nor a consistent adoption by g2: not the recorded finding
            ctx.fail('C15:%s.%s:parent' % (im.name, entry), 'after %s on a second group the observer is listed by the first group with parent %r' % (entry, o.parent),
                     dict(cls=im.name, attr=entry))


def search_rejected_ops(ctx, im, cls):
    """a refused group operation leaves EVERYTHING untouched.  Two groups of the class and a loose observer live in one
    World; every entry point that validates (add method(s), member-list setters, constructor argument, broadcast setters'
    length check) is called on `other` with an invalid argument built from a wrong-typed element at the first / middle /
    last position and *valid* elements that belong to the other group, to the world, or to nobody.  If the call raises, the
    snapshot of the whole scene must be unchanged: membership of both groups, parent of every object involved, children of
    both groups and of the world, names and every per-member setting, the camera's slit list.
    (That the call raises at all is the business of `search_type_filter` / `search_attr`.)"""
    from raysect.optical import World
    U = im.U
    add_names = [a for a in ('add_observer', 'add_sight_line', 'add_foil_detector') if hasattr(cls, a)]

    def scene():
        world = World()
        owner, other = cls(parent=world, name='owner'), cls(parent=world, name='other')
        a, b, c = (make_member(im.member_kind, t) for t in 'abc')
        for o, nm in ((a, 'a'), (b, 'b'), (c, 'c')):
            o.name = nm
        im.add(owner, a); im.add(owner, b); im.add(other, c)
        loose = make_member(im.member_kind, 'loose'); loose.name = 'loose'; loose.parent = world
        free = make_member(im.member_kind, 'free'); free.name = 'free'
        return world, owner, other, dict(a=a, b=b, c=c, loose=loose, free=free)

    def snapshot(world, owner, other, objs):
        snap = {}
        for g, nm in ((owner, 'owner'), (other, 'other')):
            snap['members:' + nm] = [id(o) for o in im.members(g)]
            snap['children:' + nm] = sorted(id(o) for o in g.children)
            if hasattr(g, 'slits'):
                snap['slits:' + nm] = [id(x) for x in g.slits]
        snap['children:world'] = sorted(id(o) for o in world.children)
        for k, o in objs.items():
            if hasattr(o, 'parent'):
                snap['parent:' + k] = id(o.parent) if o.parent is not None else None
            vals = []
            for at in im.mattrs:
                try:
                    vals.append(U.canon(at, getattr(o, at)))
                except Exception:  # noqa
                    vals.append('-')
            snap['settings:' + k] = vals
        return snap

    def attempt(entry, describe, call, wrong_kind):
        world, owner, other, objs = scene()
        w = make_member(wrong_kind, 'wrong')
        if hasattr(w, 'parent'):
            w.parent = world                  # the wrong-typed node is owned by the world
        objs = dict(objs, wrong=w)
        before = snapshot(world, owner, other, objs)
        st = outcome(lambda: call(other, objs))
        ctx.case(key=('S', im.name, 'rejected', entry, describe, wrong_kind))
        if st == 'ok':
            return True                       # accepted: not a rejected operation (type filter oracle decides)
        after = snapshot(world, owner, other, objs)
        if after != before:
            changed = sorted(k for k in before if before[k] != after.get(k))
            ctx.fail('C15:%s.%s:rejected-operation-changes-state' % (im.name, entry),
                     '%s: `other.%s` with %s (wrong element: %s) raises %s but changed %s  [owner=[a,b], other=[c], loose owned by the world]' % (
                         im.name, entry, describe, wrong_kind, st, changed),
                     dict(cls=im.name, attr=entry, argument=describe, wrong=wrong_kind, raised=st, changed=changed))
            return False
        return True

    wrongs = im.wrong_kinds
    for ml in im.mlist:
        layouts = [('[WRONG, a, loose]', lambda o: [o['wrong'], o['a'], o['loose']]),
                   ('[a, WRONG, loose]', lambda o: [o['a'], o['wrong'], o['loose']]),
                   ('[a, loose, WRONG]', lambda o: [o['a'], o['loose'], o['wrong']]),
                   ('[free, b, c, WRONG]', lambda o: [o['free'], o['b'], o['c'], o['wrong']]),
                   ('(a, WRONG) as tuple', lambda o: (o['a'], o['wrong'])),
                   ('a single observer instead of a list', lambda o: o['a'])]
        done = False
        for wk in wrongs:
            for desc_, build in layouts:
                if not attempt(ml, desc_, (lambda g, o, build=build, ml=ml: setattr(g, ml, build(o))), wk):
                    done = True
                    break
            if done:
                break
    for an in add_names:
        for wk in wrongs:
            if not attempt(an, 'a wrong-typed object owned by the world', (lambda g, o, an=an: getattr(g, an)(o['wrong'])), wk):
                break
    # Not claimed: the constructor's `observers=[a, loose, WRONG]`.  It is documented and written as a loop of add_observer():
    # the two accepted adds take `a` and `loose` over before the third add is refused, so the state change stems from
    # *accepted* operations (taking over a member of another group is outside the property sentence), and each refused
    # add by itself leaves everything untouched (checked above).  Counted as an observation only.
    if im.c['family'] == 'observer0D':
        world, owner, other, objs = scene()
        w = make_member(wrongs[0], 'wrong')
        before = snapshot(world, owner, other, objs)
        if outcome(lambda: cls(observers=[objs['a'], objs['loose'], w])) != 'ok' and snapshot(world, owner, other, objs) != before:
            ctx.count('S:observation:refused-constructor-keeps-earlier-adoptions')
    # Observations (witness of Props/C15 `engine_guard_in_loop_partial` replayed on the code - `cross_group_add_steals` is reported by search_two_groups; not
    # claimed by the property sentence, reported to the coordinator, counted here so that a change of behaviour is visible)
    if 'render_engine' in im.desc and im.c['family'] == 'observer0D':
        from raysect.core.workflow import SerialEngine
        world, owner, other, objs = scene()
        new = SerialEngine()
        if outcome(lambda: setattr(owner, 'render_engine', [new, 5])) != 'ok' and objs['a'].render_engine is new:
            ctx.count('S:observation:render_engine-guard-in-loop-partial-update')
    # broadcast setters: the length check is the validation
    for name in im.bcast:
        d = im.desc[name]
        if not d['setter'] or d['setter']['kind'] != 'broadcast' or d['getter'].get('attr') != expected_member(name):
            continue
        mattr = expected_member(name)
        for m in (0, 2):                      # `other` has one member
            vals = [im.member_value(mattr) for _ in range(m)]
            if name == 'targets' and m:
                continue                      # a flat list is the documented shared form
            if not attempt(name, 'a list of %d values for a group of 1' % m, (lambda g, o, vals=vals, name=name: setattr(g, name, list(vals))), wrongs[0]):
                break


NAME_POOL = ('alpha', 'beta', 'gamma', 'delta', 'eps')


def search_retrieval_histories(ctx, im, cls):
    """retrieval after member-level changes: histories that interleave member-level mutations (member.name = …, any
    broadcast attribute set on the member object itself) and group-level ones (names = …, add, member-list assignment,
    broadcast assignment) with retrieval.  After *every* step, with no further group operation in between:
      * group[name] is exactly the member whose current name is `name` when that member is unique; it raises for a name
        no member currently has; for a duplicated name the Observer0DGroup family raises (BolometerCamera documents
        first-match: the result must at least carry that name now);
      * group[i], group[:] follow the members in order; len is right;
      * every group-level read (`names`, all broadcast attributes) equals the members' current values."""
    rng = ctx.rng
    U = im.U
    sig = 'C15:%s.' % im.name
    reads = [a for a in im.bcast if im.desc[a]['setter'] is not None or True]
    for hist in range(ctx.n(6, 40)):
        n = rng.randint(2, 4)
        g = cls()
        ms = [make_member(im.member_kind, str(i)) for i in range(n)]
        for o in ms:
            im.add(g, o)
        for o, nm in zip(ms, rng.sample(NAME_POOL, n)):
            o.name = nm
        trail = []
        renamed_since_group_op = False

        def check(step):
            """returns False after reporting"""
            rep = dict(cls=im.name, attr='__getitem__', history=list(trail[-10:]), n=len(ms))
            # index / slice / len
            try:
                okk = len(g) == len(ms) and all(g[i] is ms[i] for i in range(len(ms))) and _same_objs(list(g[:]), ms)
            except Exception as e:  # noqa
                okk = False
            if not okk:
                ctx.fail(sig + '__getitem__:index-after-member-change', '%s: index / slice retrieval no longer follows the members after %s' % (im.name, step), rep)
                return False
            # names
            for key in NAME_POOL + ('nobody',):
                cur = [o for o in ms if o.name == key]
                try:
                    got = g[key]
                    st = 'ok'
                except Exception as e:  # noqa
                    got, st = None, ename(exc_kind(e))
                why = None
                if len(cur) == 1 and got is not cur[0]:
                    why = 'the member currently named %r is not returned (%s)' % (key, st if st != 'ok' else 'another member came back')
                elif len(cur) == 0 and st == 'ok':
                    why = 'no member is currently named %r, yet a member (current name %r) is returned' % (key, got.name)
                elif len(cur) > 1:
                    if im.c['family'] == 'observer0D' and st == 'ok':
                        why = '%d members are currently named %r, yet one of them is returned instead of an error' % (len(cur), key)
                    elif st == 'ok' and not any(got is o for o in cur):
                        why = 'a member not currently named %r is returned' % key
                if why:
                    stale = renamed_since_group_op
                    ctx.fail(sig + ('__getitem__:name-lookup-stale-after-member-rename' if stale else '__getitem__:name-lookup'),
                             '%s[%r] after %s: %s; current names %s' % (im.name, key, step, why, [o.name for o in ms]),
                             dict(rep, key=key, step=step, current_names=[o.name for o in ms]))
                    return False
            # reads
            for a in reads:
                ma = im.desc[a]['getter'].get('attr') if im.desc[a]['getter']['kind'] == 'each' else None
                if ma is None or ma != expected_member(a):
                    continue            # mis-wired getters are the business of search_attr
                try:
                    want = [U.canon(ma, getattr(o, ma)) for o in ms]
                except AttributeError:
                    continue
                try:
                    got = [U.canon(ma, x) for x in getattr(g, a)]
                except Exception as e:  # noqa
                    got = ename(exc_kind(e))
                if got != want:
                    ctx.fail(sig + a + ':read-stale-after-member-change', '%s.%s after %s returns %s, the members hold %s' % (im.name, a, step, got, want),
                             dict(cls=im.name, attr=a, history=list(trail[-10:]), step=step))
                    return False
            return True

        if not check('construction'):
            return
        for _ in range(ctx.n(14, 30)):
            r = rng.random()
            ctx.case(key=('S', im.name, 'retrieval-history', hist, len(trail)))
            if r < 0.4:
                o = rng.choice(ms)
                nm = rng.choice(NAME_POOL)
                step = 'member-level rename: members[%d].name = %r (was %r)' % (ms.index(o), nm, o.name)
                o.name = nm
                renamed_since_group_op = True
            elif r < 0.6 and reads:
                a = rng.choice([x for x in im.mattrs if x not in ('name', 'pipelines', 'targets', 'render_engine')] or ['name'])
                o = rng.choice(ms)
                v = im.member_value(a) if a != 'name' else rng.choice(NAME_POOL)
                step = 'member-level change: members[%d].%s = %r' % (ms.index(o), a, v)
                try:
                    setattr(o, a, v)
                except Exception:  # noqa
                    continue
                if a == 'name':
                    renamed_since_group_op = True
            elif r < 0.7 and 'names' in im.desc and im.desc['names']['getter'].get('attr') == 'name':
                nms = [rng.choice(NAME_POOL) for _ in ms]
                step = 'group-level names = %r' % nms
                if outcome(lambda: setattr(g, 'names', nms)) != 'ok':
                    continue
                renamed_since_group_op = False
            elif r < 0.78 and len(ms) < 5:
                o = make_member(im.member_kind, 'x')
                o.name = rng.choice(NAME_POOL)
                step = 'group-level add of a member named %r' % o.name
                if outcome(lambda: im.add(g, o)) != 'ok':
                    continue
                ms.append(o)
                renamed_since_group_op = False
            elif r < 0.86 and im.mlist:
                new = list(ms)
                rng.shuffle(new)
                new = new[:rng.randint(2, len(new))]
                ml = rng.choice(im.mlist)
                step = 'group-level %s = permutation/subset of %d members' % (ml, len(new))
                if outcome(lambda: setattr(g, ml, list(new))) != 'ok':
                    continue
                ms[:] = new
                renamed_since_group_op = False
            elif im.bcast:
                a = rng.choice([b for b in im.bcast if b not in ('names', 'pipelines', 'targets')] or im.bcast)
                v = im.member_value(expected_member(a))
                step = 'group-level %s = %r' % (a, v)
                if outcome(lambda: setattr(g, a, v)) != 'ok':
                    continue
            else:
                continue
            trail.append(step)
            if not check(step):
                return


def search_membership(ctx, im, cls):
    from raysect.core.workflow import SerialEngine
    from raysect.optical import World
    U = im.U
    sig = 'C15:%s.' % im.name
    for n in (0, 1, 3, 4):
        ctx.case(key=('S', im.name, 'membership', n))
        g = cls()
        ms = [make_member(im.member_kind, str(i)) for i in range(n)]
        for i, o in enumerate(ms):
            st = outcome(lambda: im.add(g, o))
            if st != 'ok' or len(g) != i + 1:
                ctx.fail(sig + 'add:rejects-own-type', 'adding a %s to %s: %s, len %d' % (im.member_kind, im.name, st, len(g)), dict(cls=im.name, attr='add', n=n))
                return
        if im.c['family'] == 'observer0D':
            ms2 = [make_member(im.member_kind, 'c%d' % i) for i in range(n)]
            try:
                g2 = cls(observers=ms2)
                okk = len(g2) == n and all(a is b for a, b in zip(g2.observers, ms2)) and all(o.parent is g2 for o in ms2)
            except Exception:  # noqa
                okk = False
            if not okk:
                ctx.fail(sig + '__init__:observers', '%s(observers=[%d members]) does not yield these members with the group as parent' % (im.name, n),
                         dict(cls=im.name, attr='add', n=n))
        rep = dict(cls=im.name, attr='__getitem__', n=n)
        for i in range(n):
            if outcome(lambda: g[i]) != 'ok' or g[i] is not ms[i] or g[i - n] is not ms[i]:
                ctx.fail(sig + '__getitem__:index', 'group[%d] is not the %d-th member' % (i, i), dict(rep, key=i))
                return
        for sl in (slice(None), slice(1, 3), slice(0, n), slice(None, None, -1), slice(-2, None), slice(0, 10, 2)):
            try:
                got = list(g[sl])
                okk = len(got) == len(ms[sl]) and all(a is b for a, b in zip(got, ms[sl]))
                why = 'returns other observers'
            except Exception as e:  # noqa
                okk, why = False, 'raises ' + exc_kind(e)
            if not okk:
                ctx.fail(sig + '__getitem__:slice', '%s[%r] %s (n=%d)' % (im.name, sl, why, n), dict(rep, key=repr(sl)))
                break
        for i, o in enumerate(ms):
            o.name = 'unique%d' % i
        for i, o in enumerate(ms):
            try:
                okk = g['unique%d' % i] is o
                why = 'returns another observer'
            except Exception as e:  # noqa
                okk, why = False, 'raises ' + exc_kind(e)
            if not okk:
                ctx.fail(sig + '__getitem__:name', '%s[%r] %s' % (im.name, 'unique%d' % i, why), dict(rep, key='unique%d' % i))
                break
        for o in ms:
            if o.parent is not g or o not in g.children:
                ctx.fail(sig + 'parent', 'member of %s whose scene-graph parent is not the group' % im.name, dict(cls=im.name, attr='parent', n=n))
                break
        # observe: every member exactly once
        if ms:
            world = World()
            g.parent = world
            for o in ms:
                prep_observe(g, world, o)
            before = [_samples(o) for o in ms]
            st = outcome(g.observe)
            delta = [_samples(o) - b for o, b in zip(ms, before)]
            if st != 'ok' or delta != [3] * n:
                ctx.fail(sig + 'observe', '%s.observe(): status %s, samples taken per member %s (3 = once)' % (im.name, st, delta), dict(cls=im.name, attr='observe', n=n))
            g.parent = None


# =====================================================================================================================
def inadmissible(ctx):
    """ask Lean which generated descriptors are not admissible (the constructive content of a failing `table_wf`)"""
    r = subprocess.run(['lake', 'env', 'lean', 'Cherab/Audit/C15Diag.lean'], cwd=LEAN, stdout=subprocess.PIPE, stderr=subprocess.STDOUT,
                       text=True, timeout=600)
    return [tuple(x.split('.', 1)) for x in re.findall(r'"([A-Za-z0-9_]+\.[A-Za-z0-9_]+)"', r.stdout)], r.stdout


def run(ctx, only=None):
    ctx.rule = ('exhaustive over (group class x broadcast attribute x value kind {scalar, list, tuple, ndarray, lengths 0/n-1/n+1/n+2, '
                'poisoned element, rejected scalar} x group size 0..4) plus membership histories per class and size and random histories; '
                'a case is distinct by (class, attribute, value kind, group size, outcome); non-trivial = the group had to dispatch on the '
                'value (every case except reads of an empty group)')
    ctx.trusted += ['translator harness/translators/groups.py (Python ast; validated every run against the property objects CPython built '
                    'and by interpreting its table against the real classes)',
                    'raysect observers are parameters of the model: acceptance / stored content of a value is probed on a lone observer '
                    'of the member type (Obj.rej, Obj.stored)',
                    'hand-transcribed: add_observer / add_foil_detector / __getitem__ / __len__ / observe / the constructor loop of add_observer (tied by K; the constructor is proved to agree with add_observer)']
    ctx.assumptions += ['values are chosen so that a member accepts or rejects them independently of its other attributes '
                        '(min/max wavelength and spectral rays/bins kept in disjoint ranges; axis-aligned directions)',
                        'element-wise theorems assume distinct members (the same observer added twice is modelled and compared, but "member i '
                        'holds value i" is then not claimed)',
                        'names / pipelines (documented: sequence only) and targets (flat list shared, list of lists element-wise) are the '
                        'documented exceptions to scalar broadcast']
    # 1. translator
    sc, changed = tr.generate()
    ctx.extra['translator'] = dict(setter_definitions=sc['n_setter_defs'], descriptors=len(sc['table']), classes=len(sc['classes']),
                                   table_changed=changed, hand_modelled_fingerprints=sc['fingerprints'])
    ctx.count('T:descriptors', len(sc['table']))
    # 2. T
    ok_generic = ctx.lean_check(['Cherab.Props.C15'], 'Cherab/Audit/C15.lean')
    nb = len(ctx.broken)
    ok_aux = ctx.lean_check(['Cherab.Props.C15TableAux'], 'Cherab/Audit/C15TableAux.lean')
    ok_table = ctx.lean_check(['Cherab.Props.C15Table'], 'Cherab/Audit/C15Table.lean')
    table_broken = ctx.broken[nb:]
    ctx.checker_cmd = ('cd %s && lake build Cherab.Props.C15 Cherab.Props.C15TableAux Cherab.Props.C15Table && '
                       'for f in C15 C15TableAux C15Table; do lake env lean Cherab/Audit/$f.lean; done' % LEAN)
    bad_pairs = []
    if not ok_table or not ok_aux:
        bad_pairs, raw = inadmissible(ctx)
        ctx.log('table_wf does not hold; inadmissible descriptors: %s' % (bad_pairs or raw[-400:]))
        for b in table_broken:
            b['inadmissible'] = ['%s.%s' % p for p in bad_pairs]

    # 3. K
    n_rt = guarded(ctx, 'translator-vs-runtime', lambda: translator_vs_runtime(ctx, sc), default=0)
    U = Universe()
    t = Trace(ctx)
    for c in sc['classes']:
        im = guarded(ctx, 'K setup of ' + c['name'], lambda: Impl(c, sc['table'], U, ctx.rng))
        if im is None:
            continue
        for stream, f in (('sweep', lambda: sweep(ctx, im, t)), ('membership', lambda: membership(ctx, im, t)),
                          ('random', lambda: random_histories(ctx, im, t, ctx.n(12, 1200), ctx.n(25, 40)))):
            try:
                f()
            except Exception as e:  # noqa
                # the harness drives the implementation with inputs that are valid for the unchanged tree; an exception
                # here means the implementation no longer behaves as modelled -> correspondence broken, S decides
                import traceback
                ctx.broke('correspondence', 'C15 %s stream of %s raised %s' % (stream, c['name'], exc_kind(e)),
                          dict(trace=traceback.format_exc()[-1200:]))
    outs = ctx.driver(t.lines)
    ctx.traces = len(t.lines) + n_rt
    ndis = 0
    for line, obs, out, meta in zip(t.lines, t.obs, outs, t.meta):
        if obs.strip() != out.strip():
            ndis += 1
            ctx.disagreements += 1
            if ndis <= 8:
                ctx.broke('correspondence', 'C15 model-vs-implementation', dict(line=line[:300], model=out[:300], implementation=obs[:300], context=meta))
            ctx.count('K:disagreement')
    if ndis:
        ctx.log('%d of %d protocol lines disagree' % (ndis, len(t.lines)))
    if meta_samples := [m for m in t.meta if m and m.get('op') == 'set'][:3]:
        for m in meta_samples:
            ctx.samples.append({k: m[k] for k in ('cls', 'attr', 'kind', 'n', 'value') if k in m})

    # 4. S (always: cheap monitor; it is also what turns a broken table_wf into failing inputs); corpus first, then the
    #    descriptors Lean reports as inadmissible, then everything
    if only is None:
        cdir = os.path.join(os.path.dirname(LEAN), 'corpus', 'C15')
        seeds = []
        if os.path.isdir(cdir):
            for f in sorted(os.listdir(cdir)):
                if f.endswith('.json'):
                    e = json.load(open(os.path.join(cdir, f)))
                    seeds.append((e['cls'], e['attr']))
                    ctx.count('S:corpus')
        for pair in seeds + [p for p in bad_pairs if p not in seeds]:
            search(ctx, sc, pair)
    search(ctx, sc, only)

    # 5. every inadmissible descriptor must be explained by a failing input on the implementation
    if bad_pairs:
        sigs = [f['signature'] for f in ctx.failing] + [k['signature'] for k in ctx.known_hits]
        unexplained = [p for p in bad_pairs if not any(s.startswith('C15:%s.%s:' % p) for s in sigs)]
        if not unexplained:
            for b in table_broken:
                b['explained_by_known'] = True
                b['explained_by'] = [s for s in sigs if any(s.startswith('C15:%s.%s:' % p) for p in bad_pairs)]
        else:
            ctx.log('inadmissible descriptors without a failing input on the implementation: %s' % unexplained)
            for b in table_broken:
                b['unexplained'] = ['%s.%s' % p for p in unexplained]


def replay(ctx, path):
    r = json.load(open(path))
    print(json.dumps({k: r[k] for k in r if k != 'broken'}, indent=1)[:3000])
    rp = r.get('replay') or {}
    only = (rp['cls'], rp['attr']) if 'cls' in rp and 'attr' in rp else None
    if only:
        sc = tr.scan()
        ctx.rule = 'replay of one (class, attribute) through the direct oracles'
        for m, a in (('Cherab.Props.C15', 'Cherab/Audit/C15.lean'), ('Cherab.Props.C15TableAux', 'Cherab/Audit/C15TableAux.lean'),
                     ('Cherab.Props.C15Table', 'Cherab/Audit/C15Table.lean')):
            ctx.lean_check([m], a)
        search(ctx, sc, only)
        for b in ctx.broken:                      # the replayed failing input is the explanation
            b['explained_by_known'] = bool(ctx.failing or ctx.known_hits)
        return ctx.finish()
    run(ctx)
    return ctx.finish()
