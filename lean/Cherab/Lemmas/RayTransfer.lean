import Cherab.Model.RayTransfer
import Mathlib.Algebra.Group.Basic
import Mathlib.Algebra.BigOperators.Group.Finset.Basic
import Mathlib.Algebra.BigOperators.Group.List.Basic
import Mathlib.Data.List.Dedup
import Mathlib.Data.List.Count
import Mathlib.Tactic.Abel
import Mathlib.Tactic.SplitIfs
import Mathlib.Tactic.Ring
import Mathlib.Tactic.Linarith
import Mathlib.Tactic.FieldSimp
import Mathlib.Tactic.Push
import Mathlib.Tactic.Positivity
import Mathlib.Algebra.Order.Field.Basic
import Mathlib.Algebra.Order.Floor.Ring
import Mathlib.Algebra.Order.Floor.Semiring
import Mathlib.Algebra.Order.Archimedean.Basic

/-!
Helper lemmas for C10 (ray-transfer matrices): the one-level view of the two-level run-length accumulator,
its flush invariant, the closed form of the naive specification, counting of sample midpoints in an interval.
-/
namespace Cherab.RayTransfer
set_option linter.unusedSectionVars false
set_option linter.unusedVariables false

/-! ### accumulator -/
section acc
variable {α : Type} [AddCommMonoid α]

/-- the initial `(-1,-1,-1)` -/
def cell0 : Cell := (-1, -1, -1)

/-- what the pending state would write if the loop ended now -/
def flushF (a : Acc α) : Int → α := if a.cur > -1 then bump a.spec a.cur a.res else a.spec

/-- one-level view of a loop iteration: the sample's source id is known -/
def step1 (dt : α) (a : Acc α) (c : Cell) (src : Int) : Acc α :=
  let a1 : Acc α :=
    if src ≠ a.cur then
      { spec := if a.cur > -1 then bump a.spec a.cur a.res else a.spec, cell := c, cur := src, res := 0 }
    else { a with cell := c }
  if a1.cur > -1 then { a1 with res := a1.res + dt } else a1

/-- loop invariant tying `isource_current` to the current cell -/
def Inv (look : Cell → Option Int) (bins : Nat) (a : Acc α) : Prop :=
  ((a.cell = cell0 ∧ a.cur = -1) ∨ look a.cell = some a.cur) ∧ a.cur < (bins : Int)

theorem inv_init (look : Cell → Option Int) (bins : Nat) (spec : Int → α) : Inv look bins (Acc.init spec) := by
  refine ⟨Or.inl ⟨rfl, rfl⟩, ?_⟩
  show (-1 : Int) < (bins : Int)
  omega

theorem step_ok (look : Cell → Option Int) (bins : Nat) (dt : α) (a : Acc α) (c : Cell) (s : Int)
    (h0 : look cell0 = none) (hinv : Inv look bins a) (hc : look c = some s) (hs : s < (bins : Int)) :
    stepAcc look bins dt a c = some (step1 dt a c s) ∧ Inv look bins (step1 dt a c s) := by
  obtain ⟨spec, cell, cur, res⟩ := a
  obtain ⟨hcell, hcur⟩ := hinv
  simp only at hcell hcur
  by_cases hcc : c = cell
  · subst hcc
    have hsc : s = cur := by
      rcases hcell with ⟨h1, _⟩ | h1
      · rw [h1, h0] at hc; cases hc
      · rw [h1] at hc; exact (Option.some.inj hc).symm
    subst hsc
    constructor
    · simp [stepAcc, step1]
    · by_cases h3 : s > -1 <;> simp [step1, Inv, h3, hc, hs]
  · constructor
    · by_cases h2 : s = cur
      · subst h2
        by_cases h3 : s > -1 <;> simp [stepAcc, step1, hcc, hc, h3]
      · by_cases h3 : cur > -1
        · by_cases h4 : s > -1 <;> simp [stepAcc, step1, hcc, hc, h2, h3, h4, write, hcur]
        · by_cases h4 : s > -1 <;> simp [stepAcc, step1, hcc, hc, h2, h3, h4]
    · by_cases h2 : s = cur
      · subst h2
        by_cases h3 : s > -1 <;> simp [step1, Inv, h3, hc, hs]
      · by_cases h4 : s > -1 <;> simp [step1, Inv, h2, h4, hc, hs]

theorem flushF_step1 (dt : α) (a : Acc α) (c : Cell) (src : Int) :
    flushF (step1 dt a c src) = (if src > -1 then bump (flushF a) src dt else flushF a) := by
  funext j
  obtain ⟨spec, cell, cur, res⟩ := a
  by_cases h1 : src = cur
  · subst h1
    by_cases h3 : src > -1 <;> by_cases h4 : j = src <;>
      simp [step1, flushF, bump, h3, h4, add_assoc]
  · have h1' : cur ≠ src := fun h => h1 h.symm
    by_cases h2 : cur > -1 <;> by_cases h3 : src > -1 <;>
      by_cases h4 : j = src <;> by_cases h5 : j = cur <;>
      first
        | (exfalso; exact h1 (h4.symm.trans h5))
        | simp [step1, flushF, bump, h1, h1', h2, h3, h4, h5]

theorem flush_eq (bins : Nat) (a : Acc α) (h : a.cur < (bins : Int)) : flush bins a = some (flushF a) := by
  unfold flush flushF write
  split_ifs <;> rfl

/-- the naive fold started from an arbitrary spectrum -/
theorem fold_refines (look : Cell → Option Int) (bins : Nat) (dt : α) (h0 : look cell0 = none) :
    ∀ (cells : List Cell) (a : Acc α), Inv look bins a →
      (∀ c ∈ cells, ∃ s, look c = some s ∧ s < (bins : Int)) →
      ∃ a', foldAcc look bins dt a cells = some a' ∧ Inv look bins a' ∧
        flushF a' = naive look dt (flushF a) cells := by
  intro cells
  induction cells with
  | nil => intro a hinv _; exact ⟨a, rfl, hinv, rfl⟩
  | cons c cs ih =>
    intro a hinv hall
    obtain ⟨s, hc, hs⟩ := hall c (by simp)
    obtain ⟨hstep, hinv'⟩ := step_ok look bins dt a c s h0 hinv hc hs
    obtain ⟨a', hf, hi, hfl⟩ := ih (step1 dt a c s) hinv' (fun c' hc' => hall c' (by simp [hc']))
    refine ⟨a', ?_, hi, ?_⟩
    · simp [foldAcc, hstep, hf]
    · rw [hfl, flushF_step1]
      simp only [naive, List.foldl_cons, hc]

end acc

/-! ### closed form of the naive specification -/
section closed
variable {α : Type} [AddCommMonoid α]

theorem naive_closed (look : Cell → Option Int) (dt : α) (cells : List Cell) :
    ∀ (spec : Int → α) (j : Int),
      naive look dt spec cells j =
        spec j + (if j > -1 then (cells.countP fun c => look c = some j) • dt else 0) := by
  induction cells with
  | nil => intro spec j; simp [naive]
  | cons c cs ih =>
    intro spec j
    have hcons : naive look dt spec (c :: cs) =
        naive look dt (match look c with
          | some src => if src > -1 then bump spec src dt else spec
          | none => spec) cs := rfl
    rw [hcons, ih]
    by_cases hj : j > -1
    · simp only [hj, if_true, List.countP_cons]
      cases hl : look c with
      | none => simp
      | some src =>
        by_cases hs : src > -1
        · by_cases hjs : j = src
          · subst hjs
            simp only [hs, if_true, bump, decide_true]
            rw [add_assoc]; congr 1
            simp [add_nsmul, one_nsmul, add_comm]
          · have : src ≠ j := fun h => hjs h.symm
            simp [hs, bump, hjs, this]
        · have : src ≠ j := fun h => hs (h ▸ hj)
          simp [hs, this]
    · simp only [hj, if_false, add_zero]
      cases hl : look c with
      | none => rfl
      | some src =>
        by_cases hs : src > -1
        · have : j ≠ src := fun h => hj (h ▸ hs)
          simp [hs, bump, this]
        · simp [hs]

end closed

/-! ### mask → voxel map -/

theorem mapFromMaskAux_length : ∀ (mask : List Bool) (k : Nat), (mapFromMaskAux mask k).length = mask.length
  | [], _ => rfl
  | true :: bs, k => by simp [mapFromMaskAux, mapFromMaskAux_length bs]
  | false :: bs, k => by simp [mapFromMaskAux, mapFromMaskAux_length bs]

/-- entry `i` of the map: `-1` on a False cell, otherwise `k` + number of True cells before `i` -/
theorem mapFromMaskAux_get : ∀ (mask : List Bool) (k i : Nat) (h : i < mask.length),
    (mapFromMaskAux mask k)[i]'(by rw [mapFromMaskAux_length]; exact h) =
      if mask[i] then ((k + (mask.take i).count true : Nat) : Int) else -1
  | [], _, i, h => by simp at h
  | true :: bs, k, 0, _ => by simp [mapFromMaskAux]
  | false :: bs, k, 0, _ => by simp [mapFromMaskAux]
  | true :: bs, k, i + 1, h => by
      have h' : i < bs.length := by simpa using h
      simp only [mapFromMaskAux, List.getElem_cons_succ, List.take_succ_cons, List.count_cons_self]
      rw [mapFromMaskAux_get bs (k + 1) i h']
      split_ifs <;> simp; omega
  | false :: bs, k, i + 1, h => by
      have h' : i < bs.length := by simpa using h
      simp only [mapFromMaskAux, List.getElem_cons_succ, List.take_succ_cons]
      rw [mapFromMaskAux_get bs k i h']
      simp

/-! ### counting integers / midpoints -/

/-- number of `k < n` with `lo ≤ k < hi` -/
theorem countP_range_Ico (lo hi : Nat) : ∀ n : Nat,
    (List.range n).countP (fun k => decide (lo ≤ k ∧ k < hi)) = min hi n - min lo n := by
  intro n
  induction n with
  | zero => simp
  | succ n ih =>
    rw [List.range_succ, List.countP_append, ih]
    by_cases h : lo ≤ n ∧ n < hi
    · simp [h]; omega
    · simp [h]; omega

theorem countP_mono_of_imp {β : Type} (p q : β → Bool) (l : List β) (h : ∀ x ∈ l, p x = true → q x = true) :
    l.countP p ≤ l.countP q := List.countP_mono_left h

end Cherab.RayTransfer
