/-
C18 — laser profiles and spectra.  Transcribed from
  cherab/core/model/laser/math_functions.pyx   (the four Function3D shapes and their cached constants)
  cherab/core/model/laser/profile.pyx          (normalisation, `generate_segmented_cylinder`, setters)
  cherab/core/laser/laserspectrum.pyx          (`LaserSpectrum._update_cache`, trapezoid bin density)
  cherab/core/model/laser/laserspectrum.pyx    (ConstantSpectrum / GaussianSpectrum)
Mathlib-free; polymorphic over notation (runs at `Float` in the driver, reasoned about over ordered fields).
External maths (`exp`, `sqrt`, `erf`, Python's float `//`) and the constants `π`, `c` are parameters (`Ext`).

The *stateful* part (what a setter writes, which refresh it triggers, what the constructor does, which field a
getter returns) is **not** written here: it is data (`Cls`), generated from the source by
`harness/translators/laser_edges.py` into `Cherab/Gen/LaserEdges.lean`, and interpreted by `setProp`/`runCtor`
below.  So the model follows the code's slips (a setter that forgets to rebuild leaves `snap` stale here, too).
-/
namespace Cherab.Laser

/-! ## table types (instances are generated) -/

inductive Refresh where
  | functionChanged | notify | updateCache | setEnergyFn
  deriving DecidableEq, Repr

/-- the guard a setter starts with -/
inductive Guard where
  | none        -- no validation
  | positive    -- `if value <= 0: raise ValueError`
  | rangeMin    -- `self._check_wavelength_validity(value, self.max_wavelength)`
  | rangeMax    -- `self._check_wavelength_validity(self.min_wavelength, value)`
  | unknown     -- the translator met a statement it does not understand
  deriving DecidableEq, Repr

/-- right-hand sides of `self._f = …` inside setters that the interpreter understands -/
inductive Rhs where
  | value          -- `value`
  | timesC         -- `self._pulse_length * SPEED_OF_LIGHT`
  | recip          -- `1 / value`
  | gaussNorm      -- `1 / (value * sqrt(2 * M_PI))`
  | gaussCdfNorm   -- `1 / (value * M_SQRT2)`
  | unknown
  deriving DecidableEq, Repr

structure Setter where
  prop : String
  guard : Guard
  guardFirst : Bool               -- the guard precedes the first write
  writes : List (String × Rhs)
  refresh : List Refresh
  deriving DecidableEq, Repr

structure Getter where
  name : String
  field : String
  isProperty : Bool
  deriving DecidableEq, Repr

inductive CtorOp where
  | init (field : String) (mantissa negExp : Nat)     -- `self._f = <decimal literal>`
  | initArg (field arg : String)                      -- `self._f = <constructor argument>`
  | set (prop arg : String)                           -- `self.prop = <constructor argument>` (runs the setter)
  | checkRange (argMin argMax : String)               -- `self._check_wavelength_validity(a, b)`
  | other (text : String)                             -- polarisation / pointing / notifier set-up
  | unknown (text : String)
  deriving DecidableEq, Repr

/-- which `_get_bin_power_spectral_density` the class ends up with (most derived override) -/
inductive BinPsd where
  | trapezoid      -- base class: `0.5 * (self.evaluate(lower) + self.evaluate(upper))`
  | gaussErf       -- GaussianSpectrum: `0.5 * (erf((upper − μ)k) − erf((lower − μ)k)) / delta`
  | constDensity   -- `1.0 / (self._max_wavelength - self._min_wavelength)`
  | none           -- not a spectrum
  | unknown
  deriving DecidableEq, Repr

/-- which `evaluate` the class has -/
inductive EvalKind where
  | constStep      -- ConstantSpectrum: `1/(max − min)` on `[min, max]`, else 0
  | gauss          -- GaussianSpectrum: `_normalisation * exp(-0.5 * ((x − μ) * _recip_stddev)²)`
  | none
  | unknown
  deriving DecidableEq, Repr

structure Cls where
  name : String
  isSpectrum : Bool
  binPsd : BinPsd
  evaluate : EvalKind
  setters : List Setter
  getters : List Getter
  rebuildReads : List String       -- fields read by `_function_changed` / `_update_cache` (closed over self-calls)
  rebuildPositive : List String    -- fields the rebuilt inner function validates as `> 0` in its constructor
  geometryReads : List String      -- `[radius field, length field]` passed to generate_segmented_cylinder
  ctorArgs : List String
  ctor : List CtorOp
  deriving Repr

def isRebuild : Refresh → Bool
  | .functionChanged | .updateCache | .setEnergyFn => true
  | .notify => false

section
variable {α : Type} [Add α] [Sub α] [Mul α] [Div α] [Neg α] [Zero α] [One α] [OfScientific α] [NatCast α]
  [LT α] [LE α] [DecidableLT α] [DecidableLE α] [BEq α]

/-- external mathematics and constants -/
structure Ext (α : Type) where
  c : α                      -- SPEED_OF_LIGHT
  pi : α
  sqrt : α → α
  exp : α → α
  erf : α → α
  floorDiv : α → α → Int     -- `int(a // b)` on Python floats
  toNat : α → Nat            -- C `int` field read back as a loop bound

def two : α := ((2 : Nat) : α)
/-- `x ** 2` -/
def sq (x : α) : α := x * x

/-! ## math_functions.pyx -/

/-- ConstantBivariateGaussian3D._cache_constants -/
structure Biv (α : Type) where
  kx : α
  ky : α
  norm : α

def bivCache (pi sx sy : α) : Biv α :=
  { kx := (-1) / (two * sq sx), ky := (-1) / (two * sq sy), norm := 1 / (two * pi * sx * sy) }

/-- ConstantBivariateGaussian3D.evaluate -/
def bivEval (exp : α → α) (k : Biv α) (x y : α) : α := k.norm * exp (sq x * k.kx + sq y * k.ky)

/-- TrivariateGaussian3D._cache_constants -/
structure Tri (α : Type) where
  kx : α
  ky : α
  kz : α
  norm : α
  mean : α

def triCache (pi : α) (sqrt : α → α) (mean sx sy sz : α) : Tri α :=
  { kx := (-1) / (two * sq sx), ky := (-1) / (two * sq sy), kz := (-1) / (two * sq sz),
    norm := 1 / (sqrt ((two * pi) * (two * pi) * (two * pi)) * sx * sy * sz), mean := mean }

/-- TrivariateGaussian3D.evaluate -/
def triEval (exp : α → α) (k : Tri α) (x y z : α) : α :=
  k.norm * exp (sq x * k.kx + sq y * k.ky + sq (z - k.mean) * k.kz)

/-- GaussianBeamModel._cache_constants: `2 * pi * n * σ0² / λ / 1e-9`, n = 1 -/
def rayleigh (pi sw wl : α) : α := two * pi * 1 * sq sw / wl / 1e-9

/-- GaussianBeamModel.evaluate: σ(z)² = σ0² (1 + ((z − z0)/zR)²) -/
def gbmSigma2 (pi sw wl wz z : α) : α := sq sw * (1 + sq ((z - wz) / rayleigh pi sw wl))

def gbmEval (pi : α) (exp : α → α) (wl wz sw x y z : α) : α :=
  let s2 := gbmSigma2 pi sw wl wz z
  1 / (two * pi * s2) * exp ((sq x + sq y) / ((-two) * s2))

end

section
variable {α : Type} [Add α] [Sub α] [Mul α] [Div α] [Neg α] [Zero α] [One α] [OfScientific α] [NatCast α]
  [LT α] [LE α] [DecidableLT α] [DecidableLE α] [BEq α]

/-! ## profile.pyx: energy densities (what `normalisation * self._distribution` evaluates to) -/

/-- `normalisation = pulse_energy / (SPEED_OF_LIGHT * pulse_length)` -/
def normalisation (c ep tau : α) : α := ep / (c * tau)

def cbgDensity (E : Ext α) (ep tau sx sy x y : α) : α :=
  normalisation E.c ep tau * bivEval E.exp (bivCache E.pi sx sy) x y

/-- TrivariateGaussian: `normalisation = pulse_energy`; `_stddev_z` is the field written by the pulse_length setter -/
def triDensity (E : Ext α) (ep mean sx sy sz x y z : α) : α :=
  ep * triEval E.exp (triCache E.pi E.sqrt mean sx sy sz) x y z

def gbaDensity (E : Ext α) (ep tau wl wz sw x y z : α) : α :=
  normalisation E.c ep tau * gbmEval E.pi E.exp wl wz sw x y z

/-! ## generate_segmented_cylinder -/

structure Seg (α : Type) where
  z0 : α
  height : α
  radius : α

/-- `n = int(length // (2 * radius))`; `n > 1` ⇒ n cylinders of height L/n translated to i·(L/n); `0 ≤ n < 2` ⇒ one
cylinder of height L at the origin; otherwise ValueError (`none`). -/
def segments (n : Int) (r L : α) : Option (List (Seg α)) :=
  if n > 1 then
    let h := L / (n.toNat : α)
    some ((List.range n.toNat).map fun (i : Nat) => ({ z0 := (i : α) * h, height := h, radius := r } : Seg α))
  else if 0 ≤ n then some [{ z0 := 0, height := L, radius := r }]
  else none

def generateSegmentedCylinder (E : Ext α) (r L : α) : Option (List (Seg α)) :=
  segments (E.floorDiv L (two * r)) r L

/-! ## LaserSpectrum._update_cache -/

def delta (lo hi : α) (n : Nat) : α := (hi - lo) / (n : α)

/-- `_wavelengths[i] = min + (0.5 + i) * delta` -/
def wavelength (lo d : α) (i : Nat) : α := lo + (0.5 + (i : α)) * d

def wavelengths (lo hi : α) (n : Nat) : List α := (List.range n).map (wavelength lo (delta lo hi n))

/-- the loop `wvl_upper = wvl_lower + delta; …; wvl_lower = wvl_upper`: the `n` (lower, upper) pairs from `start` -/
def binEdges (d : α) : α → Nat → List (α × α)
  | _, 0 => []
  | start, n + 1 => (start, start + d) :: binEdges d (start + d) n

/-- `wvl_lower = wavelengths_mv[0] - delta * 0.5` -/
def firstLower (lo d : α) : α := wavelength lo d 0 - d * 0.5

def bins (lo hi : α) (n : Nat) : List (α × α) := binEdges (delta lo hi n) (firstLower lo (delta lo hi n)) n

/-- power spectral density per bin and `power = psd * delta` -/
def psdList (binPsd : α → α → α) (lo hi : α) (n : Nat) : List α := (bins lo hi n).map fun e => binPsd e.1 e.2
def powerList (binPsd : α → α → α) (lo hi : α) (n : Nat) : List α :=
  (psdList binPsd lo hi n).map fun p => p * delta lo hi n

/-- base class `_get_bin_power_spectral_density`: trapezoid of `evaluate` -/
def trapezoidPsd (ev : α → α) (a b : α) : α := 0.5 * (ev a + ev b)

/-- ConstantSpectrum.evaluate -/
def constEval (lo hi x : α) : α := if lo ≤ x ∧ x ≤ hi then 1.0 / (hi - lo) else 0

/-- GaussianSpectrum.evaluate with the cached `_normalisation`, `_recip_stddev` -/
def gaussEval (exp : α → α) (norm mean recip x : α) : α :=
  norm * exp ((-0.5) * sq ((x - mean) * recip))

/-- GaussianSpectrum._get_bin_power_spectral_density with the cached `_norm_cdf`, `_delta_wavelength` -/
def gaussBinPsd (erf : α → α) (mean normCdf d a b : α) : α :=
  0.5 * (erf ((b - mean) * normCdf) - erf ((a - mean) * normCdf)) / d

def sumList (xs : List α) : α := xs.foldr (· + ·) 0

/-! ## the interpreter of the generated class tables -/

structure Obj (α : Type) where
  fields : String → α        -- the cdef double/int attributes
  snap : String → α          -- what the last rebuild of the energy function / binned spectrum captured
  built : Bool
  notified : Nat             -- number of `notifier.notify()` calls so far

inductive Res where
  | ok | valueError | noSuchSetter | notUnderstood
  deriving DecidableEq, Repr

def write (fs : String → α) (f : String) (v : α) : String → α := fun g => if g = f then v else fs g

def rangeOk (lo hi : α) : Bool := !(decide (lo ≤ 0)) && !(decide (hi ≤ 0)) && !(decide (hi ≤ lo))

def guardOk (g : Guard) (fs : String → α) (v : α) : Bool :=
  match g with
  | .none => true
  | .positive => !(decide (v ≤ 0))
  | .rangeMin => rangeOk v (fs "_max_wavelength")
  | .rangeMax => rangeOk (fs "_min_wavelength") v
  | .unknown => true

def evalRhs (E : Ext α) : Rhs → α → α
  | .value, v => v
  | .timesC, v => v * E.c
  | .recip, v => 1 / v
  | .gaussNorm, v => 1 / (v * E.sqrt (two * E.pi))
  | .gaussCdfNorm, v => 1 / (v * E.sqrt two)
  | .unknown, v => v

def applyWrites (E : Ext α) (ws : List (String × Rhs)) (fs : String → α) (v : α) : String → α :=
  ws.foldl (fun fs w => write fs w.1 (evalRhs E w.2 v)) fs

/-- the rebuilt inner function's constructor rejects non-positive widths / wavelengths -/
def rebuildOk (t : Cls) (fs : String → α) : Bool := t.rebuildPositive.all fun f => !(decide (fs f ≤ 0))

/-- `_function_changed()` / `_update_cache()`: capture exactly the fields the rebuild code reads -/
def rebuild (t : Cls) (o : Obj α) : Option (Obj α) :=
  if rebuildOk t o.fields then
    some { o with snap := fun f => if f ∈ t.rebuildReads then o.fields f else o.snap f, built := true }
  else none

def runRefresh (t : Cls) (o : Obj α) : List Refresh → Obj α × Res
  | [] => (o, .ok)
  | r :: rs =>
    if isRebuild r then
      match rebuild t o with
      | some o' => runRefresh t o' rs
      | none => (o, .valueError)
    else runRefresh t { o with notified := o.notified + 1 } rs

def findSetter (t : Cls) (prop : String) : Option Setter := t.setters.find? fun s => s.prop == prop

def setWith (E : Ext α) (t : Cls) (s : Setter) (o : Obj α) (v : α) : Obj α × Res :=
  if s.guardFirst && !(guardOk s.guard o.fields v) then (o, .valueError) else
  let o1 : Obj α := { o with fields := applyWrites E s.writes o.fields v }
  if !s.guardFirst && !(guardOk s.guard o1.fields v) then (o1, .valueError) else
  runRefresh t o1 s.refresh

/-- `obj.prop = v` -/
def setProp (E : Ext α) (t : Cls) (o : Obj α) (prop : String) (v : α) : Obj α × Res :=
  match findSetter t prop with
  | none => (o, .noSuchSetter)
  | some s => setWith E t s o v

/-- a history of assignments; a rejected assignment leaves whatever state the setter left behind -/
def runOps (E : Ext α) (t : Cls) (o : Obj α) : List (String × α) → Obj α
  | [] => o
  | (p, v) :: rest => runOps E t (setProp E t o p v).1 rest

def blank : Obj α := { fields := fun _ => 0, snap := fun _ => 0, built := false, notified := 0 }

def lit (m e : Nat) : α := OfScientific.ofScientific m true e

def ctorStep (E : Ext α) (t : Cls) (args : String → α) (o : Obj α) : CtorOp → Obj α × Res
  | .init f m e => ({ o with fields := write o.fields f (lit m e) }, .ok)
  | .initArg f a => ({ o with fields := write o.fields f (args a) }, .ok)
  | .set p a => setProp E t o p (args a)
  | .checkRange a b => (o, if rangeOk (args a) (args b) then .ok else .valueError)
  | .other _ => (o, .ok)
  | .unknown _ => (o, .notUnderstood)

/-- `Cls(**args)`: stops at the first operation that raises -/
def runCtorFrom (E : Ext α) (t : Cls) (args : String → α) (o : Obj α) : List CtorOp → Obj α × Res
  | [] => (o, .ok)
  | op :: rest =>
    match ctorStep E t args o op with
    | (o', .ok) => runCtorFrom E t args o' rest
    | r => r

def runCtor (E : Ext α) (t : Cls) (args : String → α) : Obj α × Res := runCtorFrom E t args blank t.ctor

/-! ### observations -/

/-- `get_energy_density(x, y, z)`: the function object built by the last rebuild, i.e. the class formula on `snap` -/
def energyDensity (E : Ext α) (t : Cls) (o : Obj α) (x y z : α) : α :=
  let s := o.snap
  if t.name = "UniformEnergyDensity" then s "_energy_density"
  else if t.name = "ConstantBivariateGaussian" then
    cbgDensity E (s "_pulse_energy") (s "_pulse_length") (s "_stddev_x") (s "_stddev_y") x y
  else if t.name = "TrivariateGaussian" then
    triDensity E (s "_pulse_energy") (s "_mean_z") (s "_stddev_x") (s "_stddev_y") (s "_stddev_z") x y z
  else if t.name = "GaussianBeamAxisymmetric" then
    gbaDensity E (s "_pulse_energy") (s "_pulse_length") (s "_laser_wavelength") (s "_waist_z") (s "_stddev_waist") x y z
  else 0

/-- `generate_geometry()`: computed on demand from the current fields -/
def geometry (E : Ext α) (t : Cls) (o : Obj α) : Option (List (Seg α)) :=
  match t.geometryReads with
  | [r, l] => generateSegmentedCylinder E (o.fields r) (o.fields l)
  | _ => none

/-- `evaluate(x)` of the class on a field valuation -/
def evalFn (E : Ext α) (t : Cls) (f : String → α) : α → α :=
  match t.evaluate with
  | .gauss => gaussEval E.exp (f "_normalisation") (f "_mean") (f "_recip_stddev")
  | .constStep => constEval (f "_min_wavelength") (f "_max_wavelength")
  | _ => fun _ => 0

/-- the bin density function the class ends up with, on the captured fields -/
def specBinPsd (E : Ext α) (t : Cls) (s : String → α) : α → α → α :=
  match t.binPsd with
  | .gaussErf =>
    gaussBinPsd E.erf (s "_mean") (s "_norm_cdf") (delta (s "_min_wavelength") (s "_max_wavelength") (E.toNat (s "_bins")))
  | .trapezoid => trapezoidPsd (evalFn E t s)
  | .constDensity => fun _ _ => 1.0 / (s "_max_wavelength" - s "_min_wavelength")
  | _ => fun _ _ => 0

def specWavelengths (E : Ext α) (_t : Cls) (o : Obj α) : List α :=
  wavelengths (o.snap "_min_wavelength") (o.snap "_max_wavelength") (E.toNat (o.snap "_bins"))

def specPsd (E : Ext α) (t : Cls) (o : Obj α) : List α :=
  psdList (specBinPsd E t o.snap) (o.snap "_min_wavelength") (o.snap "_max_wavelength") (E.toNat (o.snap "_bins"))

def specDelta (E : Ext α) (_t : Cls) (o : Obj α) : α :=
  delta (o.snap "_min_wavelength") (o.snap "_max_wavelength") (E.toNat (o.snap "_bins"))

/-- a scalar getter returns the field the table says it returns; `_delta_wavelength` is an output of `_update_cache` -/
def getter (E : Ext α) (t : Cls) (o : Obj α) (name : String) : Option α :=
  (t.getters.find? fun g => g.name == name).bind fun g =>
    if g.field = "_delta_wavelength" then some (specDelta E t o)
    else if g.field = "_wavelengths" ∨ g.field = "_power_spectral_density" then none
    else some (o.fields g.field)

/-- array getters: the `_update_cache` output named by the field the table says the getter returns -/
def getterList (E : Ext α) (t : Cls) (o : Obj α) (name : String) : Option (List α) :=
  (t.getters.find? fun g => g.name == name).bind fun g =>
    if g.field = "_wavelengths" then some (specWavelengths E t o)
    else if g.field = "_power_spectral_density" then some (specPsd E t o)
    else none

/-- `spectrum(x)` (Function1D call): reads the *current* fields -/
def specEvaluate (E : Ext α) (t : Cls) (o : Obj α) (x : α) : α := evalFn E t o.fields x

end
/-! ## profile ↔ laser subscriptions (cherab/core/utility/notify.py `Notifier.add/remove`,
cherab/core/laser/node.pyx `Laser.laser_profile` setter); lasers and profiles are numbered -/

/-- `Notifier.add`: a callback that is already present is ignored -/
def notifierAdd (subs : List Nat) (l : Nat) : List Nat := if l ∈ subs then subs else subs ++ [l]

/-- `Notifier.remove`: the first matching reference is purged -/
def notifierRemove (subs : List Nat) (l : Nat) : List Nat := subs.erase l

structure Scene where
  subs : Nat → List Nat      -- profile ↦ lasers whose `configure_geometry` is registered on its notifier
  cur : Nat → Option Nat     -- laser ↦ the profile it holds

def emptyScene : Scene := { subs := fun _ => [], cur := fun _ => none }

/-- `laser.laser_profile = p`: unsubscribe from the profile held so far, store, subscribe to the new one -/
def attach (s : Scene) (l p : Nat) : Scene :=
  let subs1 : Nat → List Nat :=
    match s.cur l with
    | some q => fun x => if x = q then notifierRemove (s.subs q) l else s.subs x
    | none => s.subs
  { subs := fun x => if x = p then notifierAdd (subs1 p) l else subs1 x
    cur := fun k => if k = l then some p else s.cur k }

def attachAll (s : Scene) : List (Nat × Nat) → Scene
  | [] => s
  | (l, p) :: rest => attachAll (attach s l p) rest

/-- the seeded variant: subscribe to the new profile *before* unsubscribing from the previous one -/
def attachSwapped (s : Scene) (l p : Nat) : Scene :=
  let subs1 : Nat → List Nat := fun x => if x = p then notifierAdd (s.subs p) l else s.subs x
  let subs2 : Nat → List Nat :=
    match s.cur l with
    | some q => fun x => if x = q then notifierRemove (subs1 q) l else subs1 x
    | none => subs1
  { subs := subs2, cur := fun k => if k = l then some p else s.cur k }

/-- `Notifier.notify`: every reference whose observer is still alive is called, in registration order; dead references
are collected during the loop and purged afterwards.  Returns (observers called, references kept). -/
def notifyRun (alive : Nat → Bool) (subs : List Nat) : List Nat × List Nat := (subs.filter alive, subs.filter alive)

/-- the seeded variant (purge inside the loop): removing the current entry of the list being iterated makes the
iteration skip the entry that follows it -/
def notifyPurgeInLoop (alive : Nat → Bool) : List Nat → List Nat
  | [] => []
  | l :: rest =>
    if alive l then l :: notifyPurgeInLoop alive rest
    else match rest with
      | [] => []
      | _ :: rest' => notifyPurgeInLoop alive rest'

/-! ## polarisation (`set_polarization` of the four profile classes, `LaserProfile.get_polarization`,
raysect `Vector3D.normalise`, `ConstantVector3D`) -/

section Polarisation
variable {α : Type} [Add α] [Sub α] [Mul α] [Div α] [Neg α] [Zero α] [One α] [OfScientific α] [NatCast α]
  [LT α] [LE α] [DecidableLT α] [DecidableLE α] [BEq α]

structure V3 (α : Type) where
  x : α
  y : α
  z : α

def normSq (v : V3 α) : α := v.x * v.x + v.y * v.y + v.z * v.z

/-- `Vector3D.normalise`: `t = x*x + y*y + z*z; if t == 0.0: raise ZeroDivisionError; t = 1.0 / sqrt(t);
return (x*t, y*t, z*t)`  (`t == 0.0` written with the two order tests, which agree with it on floats, NaN included) -/
def normalise (E : Ext α) (v : V3 α) : Option (V3 α) :=
  let t := normSq v
  if t ≤ 0 ∧ 0 ≤ t then none
  else
    let s := 1 / E.sqrt t
    some { x := v.x * s, y := v.y * s, z := v.z * s }

/-- a profile object together with the constant its `_polarization3d` function returns (`none`: not assigned yet) -/
structure PObj (α : Type) where
  obj : Obj α
  pol : Option (V3 α)

inductive PRes where
  | ok | valueError | zeroDivision | noSuchSetter | notUnderstood
  deriving DecidableEq, Repr

def PRes.ofRes : Res → PRes
  | .ok => .ok | .valueError => .valueError | .noSuchSetter => .noSuchSetter | .notUnderstood => .notUnderstood

/-- `set_polarization(value)`: `value = value.normalise(); self.set_polarization_function(ConstantVector3D(value))` —
nothing else is written, the notifier is not called -/
def setPolarization (E : Ext α) (o : PObj α) (v : V3 α) : PObj α × PRes :=
  match normalise E v with
  | none => (o, .zeroDivision)
  | some u => ({ o with pol := some u }, .ok)

/-- `get_polarization(x, y, z)`: `self._polarization3d(x, y, z)`, a `ConstantVector3D` -/
def getPolarization (o : PObj α) (_x _y _z : α) : Option (V3 α) := o.pol

inductive POp (α : Type) where
  | set (prop : String) (v : α)      -- `obj.prop = v`
  | pol (v : V3 α)                   -- `obj.set_polarization(v)`

def pstep (E : Ext α) (t : Cls) (o : PObj α) : POp α → PObj α × PRes
  | .set p v => ({ o with obj := (setProp E t o.obj p v).1 }, PRes.ofRes (setProp E t o.obj p v).2)
  | .pol v => setPolarization E o v

def prunOps (E : Ext α) (t : Cls) (o : PObj α) : List (POp α) → PObj α
  | [] => o
  | op :: rest => prunOps E t (pstep E t o op).1 rest

/-- the constructor statement the translator reports as `CtorOp.other` at its position in `__init__` -/
def polCall : String := "self.set_polarization(polarization)"

def pctorStep (E : Ext α) (t : Cls) (args : String → α) (pol : V3 α) (o : PObj α) (op : CtorOp) : PObj α × PRes :=
  if op = CtorOp.other polCall then setPolarization E o pol
  else ({ o with obj := (ctorStep E t args o.obj op).1 }, PRes.ofRes (ctorStep E t args o.obj op).2)

/-- `Cls(**args, polarization=pol)`: the generated constructor list with the polarisation calls executed where they
stand (so a zero vector and an invalid parameter raise in the order of the source) -/
def prunCtorFrom (E : Ext α) (t : Cls) (args : String → α) (pol : V3 α) (o : PObj α) : List CtorOp → PObj α × PRes
  | [] => (o, .ok)
  | op :: rest =>
    match pctorStep E t args pol o op with
    | (o', .ok) => prunCtorFrom E t args pol o' rest
    | r => r

def prunCtor (E : Ext α) (t : Cls) (args : String → α) (pol : V3 α) : PObj α × PRes :=
  prunCtorFrom E t args pol { obj := blank, pol := none } t.ctor

/-- does the constructor call `set_polarization` -/
def polCtorB (t : Cls) : Bool := t.ctor.any fun op => decide (op = CtorOp.other polCall)
end Polarisation

end Cherab.Laser
