#!/bin/bash
# usage: mkwt.sh <dir>   — scratch worktree of /repo HEAD with the compiled products of /repo copied in, so that
# `setup.py build_ext --inplace` only rebuilds what a patch touches.  Remove with rmwt.sh.
WT=$1
[ -e "$WT" ] && { echo "exists: $WT" >&2; exit 1; }
git -C /repo worktree prune >/dev/null 2>&1
git -C /repo worktree add --detach "$WT" HEAD >/dev/null 2>&1 || exit 1
( cd /repo && find cherab demos \( -name '*.so' -o -name '*.c' \) -print | rsync -a --files-from=- /repo/ "$WT"/ )
mkdir -p "$WT/build"; for d in /repo/build/lib.*; do [ -d "$d" ] && cp -a "$d" "$WT/build/"; done
sleep 1.1; find "$WT/cherab" "$WT/demos" -name '*.c' -exec touch {} +
sleep 1.1; find "$WT/build" "$WT/cherab" "$WT/demos" -name '*.so' -exec touch {} +
echo "$WT"
