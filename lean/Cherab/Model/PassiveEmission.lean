/-
C03 — passive emission models, transcribed from

  cherab/core/model/plasma/impact_excitation.pyx   ExcitationLine.emission / _populate_cache
  cherab/core/model/plasma/recombination.pyx       RecombinationLine.emission / _populate_cache
  cherab/core/model/plasma/thermal_cx.pyx          ThermalCXLine.emission / _populate_cache
  cherab/core/model/plasma/total_radiated_power.pyx TotalRadiatedPower.emission / _populate_cache
  cherab/core/model/plasma/bremsstrahlung.pyx      BREMS_CONST, EXP_FACTOR, BremsFunction.evaluate, Bremsstrahlung.emission
  cherab/core/math/integrators/integrators1d.pyx   GaussianQuadrature.evaluate (the default per-bin integrator)
  cherab/core/atomic/gaunt.pyx                     InterpolatedFreeFreeGauntFactor.evaluate (branch logic)
  cherab/tools/emitters/radiation_function.pyx     RadiationFunction.emission_function
  cherab/core/utility/constants.pyx                RECIP_4_PI (the literals live in Gen/Constants.lean)

Mathlib-free, polymorphic over notation: the same definitions run at `Float` in `Driver/C03.lean` and are reasoned
about over an ordered field in `Props/C03.lean`.  External mathematics (`π`, `sqrt`, `exp`, `log`, `log10`, the
rate-coefficient functions of the atomic-data provider, the Gaunt-factor interpolator, the Gauss–Legendre nodes)
are parameters.

A composition is the *list of values* of `Composition._species`, a dict keyed by `(element, charge)`: keys are
unique.  `elem` is an identifier of the `Element` object (isotopes are different elements), `z` its atomic number.
-/
namespace Cherab.Passive

/-- one plasma species sampled at the evaluation point -/
structure Sp (α : Type) where
  elem : Nat
  z : Nat
  charge : Nat
  dens : α
  temp : α

section
variable {α : Type} [Add α] [Sub α] [Mul α] [Div α] [Neg α] [Zero α] [One α] [OfScientific α] [NatCast α]
  [LT α] [LE α] [DecidableLT α] [DecidableLE α] [BEq α]

/-- constants.pyx: `RECIP_4_PI = 1 / (4 * M_PI)` -/
def recip4pi (pi : α) : α := 1 / (4.0 * pi)

def isKey (e c : Nat) (s : Sp α) : Bool := s.elem == e && s.charge == c

/-- `Composition.get(element, charge)`; `none` = ValueError, turned into RuntimeError by every model -/
def getSp (comp : List (Sp α)) (e c : Nat) : Option (Sp α) := comp.find? (isKey e c)

/-! ### ExcitationLine / RecombinationLine -/

/-- body of `emission` after the cache is populated.  `none`: a guard returned before `add_line` was called
(nothing is added to the spectrum); `some r`: `lineshape.add_line(r, …)` was called. -/
def lineCall (pi : α) (rate : α → α → α) (ne te ni : α) : Option α :=
  if ne ≤ 0 then none
  else if te ≤ 0 then none
  else if ni ≤ 0 then none
  else some (recip4pi pi * rate ne te * ne * ni)

/-- the wavelength-integrated emission is the radiance handed to the (normalised) line shape, 0 if none was -/
def emitted (r : Option α) : α := r.getD 0

/-- ExcitationLine: target = `composition.get(line.element, line.charge)`,
rate = `atomic_data.impact_excitation_pec(line.element, line.charge, line.transition)`.
`prov e c` is the provider's rate function for (element, charge) and the line's transition.
Outer `none` = RuntimeError (species missing). -/
def excitationLine (pi : α) (prov : Nat → Nat → α → α → α) (comp : List (Sp α)) (ne te : α)
    (le lc : Nat) : Option (Option α) :=
  match getSp comp le lc with
  | none => none
  | some s => some (lineCall pi (prov le lc) ne te s.dens)

/-- RecombinationLine: target has charge `line.charge + 1`, the rate is requested for `line.charge`. -/
def recombinationLine (pi : α) (prov : Nat → Nat → α → α → α) (comp : List (Sp α)) (ne te : α)
    (le lc : Nat) : Option (Option α) :=
  match getSp comp le (lc + 1) with
  | none => none
  | some s => some (lineCall pi (prov le lc) ne te s.dens)

/-! ### ThermalCXLine -/

/-- `_populate_cache`: `species != self._target_species and species.charge < species.element.atomic_number`.
`Species` has no `__eq__`, so `!=` is object identity; with unique dict keys that is key inequality. -/
def cxEligible (re rc : Nat) (s : Sp α) : Bool := !(isKey re rc s) && decide (s.charge < s.z)

def cxDonors (comp : List (Sp α)) (re rc : Nat) : List (Sp α) := comp.filter (cxEligible re rc)

/-- the donor loop of `emission`.  `gd`/`gt` say whether the loop body skips donors with non-positive
density / temperature; the current source has neither guard (`Gen/PassiveFlags.lean`). -/
def cxWeighted (gd gt : Bool) (prov : Nat → Nat → α → α → α → α) (ne te : α) (donors : List (Sp α)) : α :=
  donors.foldl (fun acc s =>
    if (gd && decide (s.dens ≤ 0)) || (gt && decide (s.temp ≤ 0)) then acc
    else acc + s.dens * prov s.elem s.charge ne te s.temp) 0

def thermalCXCall (gd gt : Bool) (pi : α) (prov : Nat → Nat → α → α → α → α) (ne te nrec : α)
    (donors : List (Sp α)) : Option α :=
  if ne ≤ 0 then none
  else if te ≤ 0 then none
  else if nrec ≤ 0 then none
  else some (recip4pi pi * cxWeighted gd gt prov ne te donors * nrec)

/-- `prov de dc` = `atomic_data.thermal_cx_pec(donor element, donor charge, line.element, line.charge+1, transition)` -/
def thermalCXLine (gd gt : Bool) (pi : α) (prov : Nat → Nat → α → α → α → α) (comp : List (Sp α)) (ne te : α)
    (le lc : Nat) : Option (Option α) :=
  match getSp comp le (lc + 1) with
  | none => none
  | some s => some (thermalCXCall gd gt pi prov ne te s.dens (cxDonors comp le (lc + 1)))

/-! ### TotalRadiatedPower -/

/-- `_populate_cache`: `for hyd_isotope in (hydrogen, deuterium, tritium): try get(hyd_isotope, 0)`;
`emission`: `nhyd = 0; for hyd_species in …: nhyd += density`.  `hyd` is the tuple of element ids. -/
def trpHydSpecies (comp : List (Sp α)) (hyd : List Nat) : List (Sp α) :=
  hyd.filterMap (fun h => getSp comp h 0)

def trpNhyd (hs : List (Sp α)) : α := hs.foldl (fun acc s => acc + s.dens) 0

/-- `if self._plt_rate and ni > 0: power_density += rate.evaluate(ne, te) * ne * ni`, `none` = provider gave None -/
def trpTerm (rate : Option (α → α → α)) (ne te : α) (guard : Bool) (a b : α) (acc : α) : α :=
  match rate with
  | none => acc
  | some r => if guard then acc + r ne te * a * b else acc

def trpPower (plt prb prc : Option (α → α → α)) (ne te ni niUp nhyd : α) : α :=
  let p0 : α := 0
  let p1 := trpTerm plt ne te (decide (ni > 0)) ne ni p0
  let p2 := trpTerm prb ne te (decide (niUp > 0)) ne niUp p1
  trpTerm prc ne te (decide (niUp > 0) && decide (nhyd > 0)) nhyd niUp p2

/-- value added to every spectral bin; `none` = early return on `ne <= 0` / `te <= 0` -/
def trpCall (pi : α) (plt prb prc : Option (α → α → α)) (ne te ni niUp nhyd mn mx : α) : Option α :=
  if ne ≤ 0 then none
  else if te ≤ 0 then none
  else some (recip4pi pi * trpPower plt prb prc ne te ni niUp nhyd / (mx - mn))

/-- whole model: species (E, c) and (E, c+1) must exist (RuntimeError otherwise); rates
`line_radiated_power_rate(E, c)`, `continuum_radiated_power_rate(E, c+1)`, `cx_radiated_power_rate(E, c+1)`.
`prov k e c` with `k = 0,1,2` for the three accessors. -/
def totalRadiatedPower (pi : α) (prov : Nat → Nat → Nat → Option (α → α → α)) (hyd : List Nat)
    (comp : List (Sp α)) (ne te mn mx : α) (e c : Nat) : Option (Option α) :=
  match getSp comp e c with
  | none => none
  | some s =>
    match getSp comp e (c + 1) with
    | none => none
    | some su =>
      some (trpCall pi (prov 0 e c) (prov 1 e (c + 1)) (prov 2 e (c + 1)) ne te s.dens su.dens
        (trpNhyd (trpHydSpecies comp hyd)) mn mx)

/-- `for i in range(spectrum.bins): samples[i] += radiance` -/
def addToBins (samples : List α) (r : Option α) : List α :=
  match r with
  | none => samples
  | some v => samples.map (· + v)

/-! ### Bremsstrahlung -/

/-- the module-level four-step product `BREMS_CONST` (`x**2`, `x**3` written as products) -/
def bremsConst (sqrt : α → α) (pi e eps0 me c : α) : α :=
  let r4 := recip4pi pi
  let b0 := (e * e * r4 / eps0) * (e * e * r4 / eps0) * (e * e * r4 / eps0)
  let b1 := b0 * (32.0 * (pi * pi) / (3.0 * sqrt 3.0 * (me * me) * (c * c * c)))
  let b2 := b1 * sqrt (2.0 * me / (pi * e))
  b2 * (c * 1e9 * r4)

/-- `EXP_FACTOR = PLANCK_CONSTANT * SPEED_OF_LIGHT * 1e9 / ELEMENTARY_CHARGE` (also gaunt.pyx `PH_TO_EV_FACTOR`) -/
def expFactor (h c e : α) : α := h * c * 1e9 / e

/-- the species loop of `BremsFunction.evaluate` over the cached charge and density arrays -/
def bremsSum (gaunt : α → α → α → α) (te wvl : α) (charges dens : List α) : α :=
  (charges.zip dens).foldl (fun acc p =>
    if p.2 > 0 then acc + p.2 * gaunt p.1 te wvl * p.1 * p.1 else acc) 0

/-- `BremsFunction.evaluate(wvl)` -/
def bremsFunction (sqrt exp : α → α) (bc ef : α) (gaunt : α → α → α → α) (ne te : α) (charges dens : List α)
    (wvl : α) : α :=
  let pre := bc / (sqrt te * wvl * wvl) * ne * bremsSum gaunt te wvl charges dens
  pre * exp (-ef / (te * wvl))

/-- `_populate_cache`: charges of the species with `charge > 0`, as float64 -/
def bremsCharges (comp : List (Sp α)) : List α := (comp.filter (fun s => decide (s.charge > 0))).map (fun s => (s.charge : α))

/-- `emission`: densities of the species with `charge > 0`, in the same iteration order -/
def bremsDensities (comp : List (Sp α)) : List α := (comp.filter (fun s => decide (s.charge > 0))).map (fun s => s.dens)

/-- the bin loop: `lower = min; for i: upper = min + delta*(i+1); samples[i] += integ(lower, upper)/delta; lower = upper` -/
def bremsBinsFrom (integ : α → α → α) (mn delta : α) : Nat → Nat → α → List α
  | 0, _, _ => []
  | k + 1, i, lower =>
    let upper := mn + delta * ((i + 1 : Nat) : α)
    (integ lower upper / delta) :: bremsBinsFrom integ mn delta k (i + 1) upper

def bremsBins (integ : α → α → α) (mn delta : α) (bins : Nat) : List α := bremsBinsFrom integ mn delta bins 0 mn

/-- the pairs of limits handed to the integrator, for reasoning about the bin edges -/
def bremsEdgesFrom (mn delta : α) : Nat → Nat → α → List (α × α)
  | 0, _, _ => []
  | k + 1, i, lower =>
    let upper := mn + delta * ((i + 1 : Nat) : α)
    (lower, upper) :: bremsEdgesFrom mn delta k (i + 1) upper

/-- `Bremsstrahlung.emission`: `none` = early return (`ne <= 0` or `te <= 0`), otherwise the per-bin increments.
`integ f a b` is the integrator applied to the function `f`. -/
def bremsEmission (sqrt exp : α → α) (bc ef : α) (gaunt : α → α → α → α)
    (integ : (α → α) → α → α → α) (comp : List (Sp α)) (ne te mn delta : α) (bins : Nat) : Option (List α) :=
  if ne ≤ 0 then none
  else if te ≤ 0 then none
  else some (bremsBins (integ (bremsFunction sqrt exp bc ef gaunt ne te (bremsCharges comp) (bremsDensities comp)))
    mn delta bins)

/-! ### Bremsstrahlung as a state machine: the cache that persists between `emission` calls

`_populate_cache` stores the charges of the charged species and a zeroed density buffer of the same length in the
persistent `BremsFunction`; every `emission` call overwrites the buffer slot of *every* charged species (positive or not)
before integrating; `_change()` drops the cache (`none`). -/

structure BremsCache (α : Type) where
  charges : List α
  buf : List α

/-- `species_charge = np.array([...])`, `species_density = np.zeros_like(species_charge)` -/
def bremsPopulate (comp : List (Sp α)) : BremsCache α :=
  ⟨bremsCharges comp, (bremsCharges comp).map (fun _ => 0)⟩

/-- `i = 0; for species in composition: if species.charge > 0: species_density_mv[i] = density; i += 1` -/
def bremsFill : List (Sp α) → List α → Nat → List α
  | [], buf, _ => buf
  | s :: t, buf, i => if s.charge > 0 then bremsFill t (buf.set i s.dens) (i + 1) else bremsFill t buf i

/-- one `emission` call on the persistent state: (new state, per-bin increments or `none` for the early return).
The cache is populated *before* the `ne`/`te` guards, the buffer is written only after them. -/
def bremsEvalSt (sqrt exp : α → α) (bc ef : α) (gaunt : α → α → α → α) (integ : (α → α) → α → α → α)
    (st : Option (BremsCache α)) (comp : List (Sp α)) (ne te mn delta : α) (bins : Nat) :
    Option (BremsCache α) × Option (List α) :=
  let c := match st with
    | some c => c
    | none => bremsPopulate comp
  if ne ≤ 0 then (some c, none)
  else if te ≤ 0 then (some c, none)
  else
    let buf := bremsFill comp c.buf 0
    (some ⟨c.charges, buf⟩,
      some (bremsBins (integ (bremsFunction sqrt exp bc ef gaunt ne te c.charges buf)) mn delta bins))

/-- a point of the plasma as the model sees it -/
structure BremsPoint (α : Type) where
  comp : List (Sp α)
  ne : α
  te : α

/-- a history of `emission` calls on one instance (same spectral window), outputs in order -/
def bremsRun (sqrt exp : α → α) (bc ef : α) (gaunt : α → α → α → α) (integ : (α → α) → α → α → α)
    (mn delta : α) (bins : Nat) : Option (BremsCache α) → List (BremsPoint α) → List (Option (List α))
  | _, [] => []
  | st, p :: ps =>
    let r := bremsEvalSt sqrt exp bc ef gaunt integ st p.comp p.ne p.te mn delta bins
    r.2 :: bremsRun sqrt exp bc ef gaunt integ mn delta bins r.1 ps

/-! ### GaussianQuadrature.evaluate (integrators1d.pyx) -/

def absA (x : α) : α := if x < 0 then -x else x

/-- one order: `newval = Σ w_i f(c + d x_i); newval *= d` -/
def gqOrder (f : α → α) (c d : α) (rule : List (α × α)) : α :=
  rule.foldl (fun acc xw => acc + xw.2 * f (c + d * xw.1)) 0 * d

/-- orders `min_order … max_order`; `old = none` stands for `oldval = INFINITY` (the first error is infinite) -/
def gqLoop (f : α → α) (c d rtol : α) : List (List (α × α)) → Option α → α → α
  | [], _, last => last
  | r :: rs, old, _ =>
    let nv := gqOrder f c d r
    let stop := match old with
      | none => false
      | some o => decide (absA (nv - o) < rtol * absA nv)
    if stop then nv else gqLoop f c d rtol rs (some nv) nv

def gaussQuad (rules : List (List (α × α))) (rtol : α) (f : α → α) (a b : α) : α :=
  gqLoop f (0.5 * (a + b)) (0.5 * (b - a)) rtol rules none 0

/-! ### InterpolatedFreeFreeGauntFactor.evaluate (gaunt.pyx) -/

/-- branch taken, for the exact part of the correspondence: 0 zero charge, 1 classical, 2 Born, 3 table -/
def gauntBranch (ryd ph umin umax g2min g2max z te wvl : α) : Nat :=
  if z == 0 then 0
  else
    let gamma2 := z * z * ryd / te
    let u := ph / (te * wvl)
    if u ≥ umax || gamma2 ≥ g2max then 1
    else if u < umin || gamma2 < g2min then 2
    else 3

def gauntFactor (sqrt log log10 : α → α) (interp : α → α → α) (pi euler ryd ph umin umax g2min g2max : α)
    (z te wvl : α) : α :=
  if z == 0 then 0
  else
    let gamma2 := z * z * ryd / te
    let u := ph / (te * wvl)
    if u ≥ umax || gamma2 ≥ g2max then 1
    else if u < umin || gamma2 < g2min then sqrt 3.0 / pi * (log (4.0 / u) - euler)
    else interp (log10 u) (log10 gamma2)

/-! ### RadiationFunction.emission_function (tools/emitters/radiation_function.pyx) -/

/-- `emission = f(x,y,z) / (4 * M_PI * wvl_range)`, `wvl_range = ray.max_wavelength - ray.min_wavelength` -/
def radiationFunction (pi phi rmin rmax : α) : α := phi / (4.0 * pi * (rmax - rmin))

end
end Cherab.Passive
