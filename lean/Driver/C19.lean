import Cherab.Drv.Proto
import Cherab.Model.Registry
import Cherab.Model.Periodic
import Cherab.Gen.Elements
open Cherab.Drv Cherab.Registry Cherab.Gen.Elements

/-!
C19 driver.  Strings travel as their codes (decimal of the big-endian UTF-8 bytes), objects of the generated table as
`E<i>` / `I<j>` (positions in `elements` / `isotopes`), constructed objects as comma lists
`e,name,sym,z,wn,wd` and `i,name,sym,a,wn,wd,<parent>` (built with the generated `mkElement` / `mkIsotope`).
-/

def elArr : Array El := elements.toArray
def isoArr : Array Iso := isotopes.toArray
def spArr : Array Sp := (elements.map Sp.el ++ isotopes.map Sp.iso).toArray

def elId (e : El) : String :=
  match elArr.findIdx? (fun x => x.beq e) with
  | some i => s!"E{i}"
  | none => s!"E?{e.name}"

def isoId (i : Iso) : String :=
  match isoArr.findIdx? (fun x => x.beq i) with
  | some j => s!"I{j}"
  | none => s!"I?{i.base.name}"

/-- parse a species spec -/
partial def pEl (fs : List String) : Option El :=
  match fs with
  | [t] => if t.startsWith "E" then elArr[(t.drop 1).toNat!]? else none
  | ["e", n, s, z, wn, wd] => some (mkElement (pN n) (pN s) (pN z) (pN wn, pN wd))
  | _ => none

def pSp (tok : String) : Option Sp :=
  let fs := tok.splitOn ","
  match fs with
  | [t] =>
    if t.startsWith "E" then (elArr[(t.drop 1).toNat!]?).map Sp.el
    else if t.startsWith "I" then (isoArr[(t.drop 1).toNat!]?).map Sp.iso
    else none
  | "e" :: _ => (pEl fs).map Sp.el
  | "i" :: n :: s :: a :: wn :: wd :: parent =>
    (pEl parent).map fun p => Sp.iso (mkIsotope (pN n) (pN s) p (pN a) (pN wn, pN wd))
  | _ => none

def pQuery (kind arg : String) : Option Query :=
  match kind with
  | "s" => some (.str (pN arg))
  | "n" => some (.int (pI arg))
  | "o" =>
    match pSp arg with
    | some (.el e) => some (.elem e)
    | some (.iso i) => some (.isot i)
    | none => none
  | _ => none

def bits (l : List Bool) : String := String.ofList (l.map fun b => if b then '1' else '0')

def lhBeq : LHVal Nat → LHVal Nat → Bool
  | .sp a, .sp b => hashBeq a b
  | .charge a, .charge b => a == b
  | .tr a, .tr b => a == b
  | _, _ => false

def lhListBeq : List (LHVal Nat) → List (LHVal Nat) → Bool
  | [], [] => true
  | x :: xs, y :: ys => lhBeq x y && lhListBeq xs ys
  | _, _ => false

def dumpIdx {α : Type} (idx : Index α) (f : α → String) : String :=
  " ".intercalate (idx.map fun kv => s!"{kv.1}:{f kv.2}")

def step (ts : List String) : String :=
  match ts with
  | ["count"] => s!"{elArr.size} {isoArr.size} {elementIndex.length} {isotopeIndex.length}"
  | ["el", i] =>
    match elArr[pN i]? with
    | some e => s!"{e.name} {e.sym} {e.z} {e.wNum} {e.wDen}"
    | none => "none"
  | ["iso", j] =>
    match isoArr[pN j]? with
    | some i => s!"{i.base.name} {i.base.sym} {i.base.z} {i.base.wNum} {i.base.wDen} {i.a} {elId i.parent} {i.parent.name}"
    | none => "none"
  | ["eidx"] => dumpIdx elementIndex elId
  | ["iidx"] => dumpIdx isotopeIndex isoId
  | ["le", k, a] =>
    match pQuery k a with
    | some q => match lookupElement elementIndex q with | some e => elId e | none => "ValueError"
    | none => "bad-query"
  | ["li", k, a, n] =>
    match pQuery k a with
    | some q =>
      let num : Option Int := if n == "-" then none else some (pI n)
      match lookupIsotope elementIndex isotopeIndex q num with | some i => isoId i | none => "ValueError"
    | none => "bad-query"
  | ["cmp", a, b] =>
    match pSp a, pSp b with
    | some x, some y => bits [pyEq cfg x y, pyNe cfg x y, hashBeq (spHash cfg x) (spHash cfg y)]
    | _, _ => "bad-species"
  | ["row", i] =>
    match spArr[pN i]? with
    | some x =>
      let l := spArr.toList
      bits (l.map fun y => pyEq cfg x y) ++ " " ++ bits (l.map fun y => pyNe cfg x y) ++ " " ++
        bits (l.map fun y => hashBeq (spHash cfg x) (spHash cfg y))
    | none => "none"
  | ["lcmp", a, ca, ta, b, cb, tb] =>
    match pSp a, pSp b with
    | some x, some y =>
      let l1 : Line Nat := ⟨x, pI ca, pN ta⟩
      let l2 : Line Nat := ⟨y, pI cb, pN tb⟩
      bits [lineEq cfg l1 l2, lineNe cfg l1 l2, lhListBeq (lineHash cfg l1) (lineHash cfg l2)]
    | _, _ => "bad-species"
  | ["linector", a, c] =>
    match pSp a with
    | some x => fB (lineCtorOk x (pI c))
    | none => "bad-species"
  | ["periodic", z] =>
    match Cherab.Periodic.symbolOf (pN z), Cherab.Periodic.nameOf (pN z) with
    | some s, some n => s!"{s} {n}"
    | _, _ => "none"
  | ["hisotopes"] =>
    " ".intercalate (Cherab.Periodic.hydrogenIsotopesCoded.map fun r => s!"{r.1}:{r.2.1}:{r.2.2}")
  | ["named", z, en, es, a, n, sy] =>
    fB (Cherab.Periodic.isotopeNamedAfter (pN z) (pN en) (pN es) (pN a) (pN n) (pN sy))
  | ["lower", c] => toString (lower (pN c))
  | ["strint", n] => toString (strInt (pI n))
  | ["cat", a, b] => toString (cat (pN a) (pN b))
  | ["bytes", c] => toString (bytes (pN c))
  | ["enc", hex] => toString (enc hex)
  | ["keys", a] =>
    match pSp a with
    | some (.el e) => " ".intercalate ((elementKeys e).map toString)
    | some (.iso i) => " ".intercalate ((isotopeKeys i).map toString)
    | none => "bad-species"
  | _ => "bad-op"

def main : IO UInt32 := do
  loop (stateless step) (← IO.getStdin) (← IO.getStdout) ()
  return 0
