"""C07 translator:  cherab/openadas/openadas.py, cherab/openadas/rates/*.pyx|pxd, cherab/core/atomic/{rates,interface}.pyx
                   ->  lean/Cherab/Gen/OpenAdasPolicy.lean

Purely syntactic.

openadas.py (Python `ast`): every method of class `OpenADAS` except `__init__` and the `data_path` property is an
accessor.  `wavelength` is read into a `WavelengthPolicy`; each other accessor body is walked statement by statement
with a tiny environment  name -> raw p | elem p | other  recording how local names relate to the parameters:

    if isinstance(X, Isotope): X = X.element                   env[X] := elem(param of X)      (the isotope is lost)
    Y = X.element if isinstance(X, Isotope) else X             env[Y] := elem(param of X)      (X keeps the isotope)
    try: data = repository.get_F(args…, repository_path=self._data_path)
    except <classes>:
        if self._missing_rates_return_null: return NullC(args…) | [NullC(args…)]
        raise
    wavelength = self.wavelength(S, <charge expr>, T)
    return RateC(args…, extrapolate=self._permit_extrapolation)
    rates = []; for …: rates.append(RateC(…)); return rates    (list result)

Anything else sets `recognised := false` for that accessor (the table obligations then fail rather than guess).

.pyx/.pxd (regex + indentation scanner): per `cdef class` the base name, `__init__` / `evaluate` parameter names, the
parameters compared `<= 0` before the first interpolator call of `evaluate`, the data keys wrapped in
`PhotonToJ.to(…)`, every `'<kind>' if extrapolate else 'none'`, whether log-space axes are `np.log10(...)`, whether
`evaluate` is `return 0.0`.  The accepted positional-argument counts of each Null class come from the first `__init__`
found along its base chain (openadas .pxd alias -> cherab/core/atomic/rates.pyx).
"""
import ast
import os
import re

from harness.vlib import lean
from harness.vlib.util import REPO, LEAN

OPENADAS = 'cherab/openadas/openadas.py'
RATE_FILES = ['atomic', 'pec', 'beam', 'cx', 'radiated_power']
CORE_RATES = 'cherab/core/atomic/rates.pyx'
INTERFACE = 'cherab/core/atomic/interface.pyx'
OUT = os.path.join(LEAN, 'Cherab', 'Gen', 'OpenAdasPolicy.lean')
SKIP = ('__init__', 'data_path')
INIT_KNOWN_CALLS = ('np.log10', 'PhotonToJ.to', '_log10_knots', 'Interpolator1DArray', 'Interpolator2DArray', 'Interpolator3DArray',
                    'Constant1D', 'Constant2D', 'IsoMapper2D', 'Arg2D', 'len', 'super', '__init__')


# ---------------------------------------------------------------------------------------------- openadas.py (ast)
def _is_isinstance_isotope(t):
    return (isinstance(t, ast.Call) and isinstance(t.func, ast.Name) and t.func.id == 'isinstance' and len(t.args) == 2
            and isinstance(t.args[0], ast.Name) and isinstance(t.args[1], ast.Name) and t.args[1].id == 'Isotope')


def _self_attr(n, attr=None):
    return (isinstance(n, ast.Attribute) and isinstance(n.value, ast.Name) and n.value.id == 'self'
            and (attr is None or n.attr == attr))


def _src(env, n):
    if isinstance(n, ast.Name):
        return env.get(n.id, ('other', n.id))
    return ('other', ast.unparse(n))


def _exc_names(t):
    if t is None:
        return ['BaseException']
    if isinstance(t, ast.Tuple):
        return [ast.unparse(e) for e in t.elts]
    return [ast.unparse(t)]


def _call_of(node):
    """Call | [Call]  ->  (call, in_list)"""
    if isinstance(node, ast.List) and len(node.elts) == 1 and isinstance(node.elts[0], ast.Call):
        return node.elts[0], True
    if isinstance(node, ast.Call):
        return node, False
    return None, False


def read_accessor(fn, species_of):
    params = [a.arg for a in fn.args.args if a.arg != 'self']
    env = {p: ('raw', p) for p in params}
    acc = dict(name=fn.name, params=params, species=species_of.get(fn.name, []), getFn='', getArgs=[], caught=[],
               handlerStd=False, nullClass='', nullArgs=[], nullInList=False, wl=None, rateClass='', rateArgs=[],
               rateInList=False, extrapolateFlag=False, recognised=True, why=[])
    list_var = None
    seen_try = seen_return = False

    def bad(msg, node=None):
        acc['recognised'] = False
        acc['why'].append(msg + (' @%d' % node.lineno if node is not None else ''))

    def rate_call(call, in_list):
        if not isinstance(call.func, ast.Name):
            return bad('rate constructor is not a plain name', call)
        acc['rateClass'] = call.func.id
        acc['rateArgs'] = [_src(env, a) for a in call.args]
        acc['rateInList'] = in_list
        kws = {k.arg: k.value for k in call.keywords}
        acc['extrapolateFlag'] = set(kws) == {'extrapolate'} and _self_attr(kws['extrapolate'], '_permit_extrapolation')
        if set(kws) - {'extrapolate'}:
            bad('unexpected keyword in rate constructor', call)

    body = list(fn.body)
    if body and isinstance(body[0], ast.Expr) and isinstance(body[0].value, ast.Constant) and isinstance(body[0].value.value, str):
        body = body[1:]
    for st in body:
        if seen_return:
            bad('statement after return', st)
            continue
        # if isinstance(X, Isotope): X = X.element
        if isinstance(st, ast.If) and _is_isinstance_isotope(st.test) and not st.orelse and len(st.body) == 1:
            x = st.test.args[0].id
            a = st.body[0]
            if (isinstance(a, ast.Assign) and len(a.targets) == 1 and isinstance(a.targets[0], ast.Name) and a.targets[0].id == x
                    and isinstance(a.value, ast.Attribute) and a.value.attr == 'element'
                    and isinstance(a.value.value, ast.Name) and a.value.value.id == x and env.get(x, ('other',))[0] == 'raw'):
                env[x] = ('elem', env[x][1])
                continue
            bad('isotope test with an unexpected body', st)
            continue
        if isinstance(st, ast.Assign) and len(st.targets) == 1 and isinstance(st.targets[0], ast.Name):
            tgt = st.targets[0].id
            v = st.value
            # Y = X.element if isinstance(X, Isotope) else X
            if (isinstance(v, ast.IfExp) and _is_isinstance_isotope(v.test) and isinstance(v.orelse, ast.Name)
                    and v.orelse.id == v.test.args[0].id and isinstance(v.body, ast.Attribute) and v.body.attr == 'element'
                    and isinstance(v.body.value, ast.Name) and v.body.value.id == v.orelse.id
                    and env.get(v.orelse.id, ('other',))[0] == 'raw' and tgt not in params):
                env[tgt] = ('elem', env[v.orelse.id][1])
                continue
            # wavelength = self.wavelength(S, charge, T)
            if isinstance(v, ast.Call) and _self_attr(v.func, 'wavelength') and len(v.args) == 3 and not v.keywords and seen_try:
                acc['wl'] = dict(species=_src(env, v.args[0]), charge=ast.unparse(v.args[1]), transition=_src(env, v.args[2]))
                env[tgt] = ('other', tgt)
                continue
            # rates = []
            if isinstance(v, ast.List) and not v.elts and seen_try:
                list_var = tgt
                continue
            bad('unrecognised assignment to ' + tgt, st)
            continue
        if isinstance(st, ast.Try) and not seen_try and not st.orelse and not st.finalbody and len(st.handlers) == 1 and len(st.body) == 1:
            seen_try = True
            a = st.body[0]
            ok = (isinstance(a, ast.Assign) and len(a.targets) == 1 and isinstance(a.targets[0], ast.Name)
                  and isinstance(a.value, ast.Call) and isinstance(a.value.func, ast.Attribute)
                  and isinstance(a.value.func.value, ast.Name) and a.value.func.value.id == 'repository')
            if not ok:
                bad('try body is not `data = repository.get_*(…)`', st)
                continue
            call = a.value
            acc['getFn'] = call.func.attr
            acc['getArgs'] = [_src(env, x) for x in call.args]
            kws = {k.arg: k.value for k in call.keywords}
            if set(kws) != {'repository_path'} or not _self_attr(kws['repository_path'], '_data_path'):
                bad('repository read without repository_path=self._data_path', st)
            env[a.targets[0].id] = ('other', a.targets[0].id)
            h = st.handlers[0]
            acc['caught'] = _exc_names(h.type)
            hb = h.body
            std = (len(hb) == 2 and isinstance(hb[0], ast.If) and _self_attr(hb[0].test, '_missing_rates_return_null')
                   and not hb[0].orelse and len(hb[0].body) == 1 and isinstance(hb[0].body[0], ast.Return)
                   and isinstance(hb[1], ast.Raise) and hb[1].exc is None)
            if std:
                ncall, in_list = _call_of(hb[0].body[0].value)
                if ncall is not None and isinstance(ncall.func, ast.Name) and not ncall.keywords:
                    acc['handlerStd'] = True
                    acc['nullClass'] = ncall.func.id
                    acc['nullArgs'] = [_src(env, x) for x in ncall.args]
                    acc['nullInList'] = in_list
            if not acc['handlerStd']:
                bad('non-standard except handler', h)
            continue
        # for …: rates.append(RateC(…))
        if isinstance(st, ast.For) and list_var and len(st.body) == 1 and not st.orelse:
            e = st.body[0]
            for t in ast.walk(st.target):
                if isinstance(t, ast.Name):
                    env[t.id] = ('other', t.id)
            if (isinstance(e, ast.Expr) and isinstance(e.value, ast.Call) and isinstance(e.value.func, ast.Attribute)
                    and e.value.func.attr == 'append' and isinstance(e.value.func.value, ast.Name)
                    and e.value.func.value.id == list_var and len(e.value.args) == 1 and isinstance(e.value.args[0], ast.Call)):
                rate_call(e.value.args[0], True)
                continue
            bad('unrecognised loop', st)
            continue
        if isinstance(st, ast.Return) and seen_try:
            seen_return = True
            if isinstance(st.value, ast.Name) and st.value.id == list_var and acc['rateClass']:
                continue
            call, in_list = _call_of(st.value)
            if call is not None:
                rate_call(call, in_list)
                continue
            bad('unrecognised return', st)
            continue
        bad('unrecognised statement ' + type(st).__name__, st)
    if not seen_try or not seen_return:
        bad('missing try/return')
    return acc


def read_wavelength(fn):
    w = dict(guardStd=False, caught=[], fallbackToElement=False, plainUsesRaw=False, recognised=False)
    params = [a.arg for a in fn.args.args if a.arg != 'self']
    body = list(fn.body)
    if body and isinstance(body[0], ast.Expr) and isinstance(body[0].value, ast.Constant):
        body = body[1:]
    if len(params) != 3 or len(body) != 2:
        return w
    sp = params[0]

    def get_call(n, first):
        """repository.get_wavelength(<first>, charge, transition, repository_path=self._data_path)"""
        if not (isinstance(n, ast.Call) and isinstance(n.func, ast.Attribute) and n.func.attr == 'get_wavelength'
                and isinstance(n.func.value, ast.Name) and n.func.value.id == 'repository' and len(n.args) == 3):
            return False
        kws = {k.arg: k.value for k in n.keywords}
        if set(kws) != {'repository_path'} or not _self_attr(kws['repository_path'], '_data_path'):
            return False
        if [ast.unparse(a) for a in n.args[1:]] != params[1:]:
            return False
        return ast.unparse(n.args[0]) == first

    iff, ret = body
    if not (isinstance(iff, ast.If) and isinstance(ret, ast.Return)):
        return w
    t = iff.test
    w['guardStd'] = (isinstance(t, ast.BoolOp) and isinstance(t.op, ast.And) and len(t.values) == 2
                     and _is_isinstance_isotope(t.values[0]) and t.values[0].args[0].id == sp
                     and _self_attr(t.values[1], '_wavelength_element_fallback'))
    if (len(iff.body) == 1 and isinstance(iff.body[0], ast.Try) and not iff.orelse and len(iff.body[0].handlers) == 1
            and len(iff.body[0].body) == 1 and isinstance(iff.body[0].body[0], ast.Return)
            and get_call(iff.body[0].body[0].value, sp)):
        h = iff.body[0].handlers[0]
        w['caught'] = _exc_names(h.type)
        w['fallbackToElement'] = (len(h.body) == 1 and isinstance(h.body[0], ast.Return)
                                  and get_call(h.body[0].value, sp + '.element'))
        w['plainUsesRaw'] = get_call(ret.value, sp)
        w['recognised'] = True
    return w


def read_interface():
    """method name -> names of the parameters typed Element in AtomicData"""
    out = {}
    src = open(os.path.join(REPO, INTERFACE)).read()
    for m in re.finditer(r'cpdef\s+[\w.]+\s+(\w+)\(self,\s*([^)]*)\)', src):
        ps = []
        for p in m.group(2).split(','):
            toks = p.split('=')[0].split()
            if len(toks) == 2 and toks[0] == 'Element':
                ps.append(toks[1])
        out[m.group(1)] = ps
    return out


def read_openadas():
    tree = ast.parse(open(os.path.join(REPO, OPENADAS)).read())
    cls = [n for n in tree.body if isinstance(n, ast.ClassDef) and n.name == 'OpenADAS'][0]
    iface = read_interface()
    accs, wl = [], None
    for fn in cls.body:
        if not isinstance(fn, ast.FunctionDef) or fn.name in SKIP:
            continue
        if fn.name == 'wavelength':
            wl = read_wavelength(fn)
            continue
        # the interface names its parameters differently; species are matched by position
        params = [a.arg for a in fn.args.args if a.arg != 'self']
        species = {}
        if fn.name in iface:
            src = open(os.path.join(REPO, INTERFACE)).read()
            m = re.search(r'cpdef\s+[\w.]+\s+%s\(self,\s*([^)]*)\)' % fn.name, src)
            decl = [p.split('=')[0].split() for p in m.group(1).split(',')]
            species[fn.name] = [params[i] for i, d in enumerate(decl) if i < len(params) and len(d) == 2 and d[0] == 'Element']
        accs.append(read_accessor(fn, species))
    return accs, wl or dict(guardStd=False, caught=[], fallbackToElement=False, plainUsesRaw=False, recognised=False)


# ---------------------------------------------------------------------------------------------- .pyx scanner
_CLASS = re.compile(r'^cdef class (\w+)\s*(?:\(([^)]*)\))?\s*:', re.M)


def _classes(src):
    ms = list(_CLASS.finditer(src))
    for i, m in enumerate(ms):
        yield m.group(1), (m.group(2) or '').strip(), src[m.end():ms[i + 1].start() if i + 1 < len(ms) else len(src)]


def _strip(body):
    body = re.sub(r'("""|\'\'\')(.*?)\1', '', body, flags=re.S)
    return '\n'.join(l.split('#')[0].rstrip() for l in body.splitlines())


def _params(sig):
    out = []
    for p in sig.split(','):
        p = p.strip()
        if not p or p == 'self':
            continue
        name = p.split('=')[0].split()[-1]
        out.append((name, '=' in p))
    return out


def _method(body, pattern):
    """(signature, text of the method body) of the first method matching `pattern` (a regex ending before '(')"""
    m = re.search(r'^(\s+)' + pattern + r'\((.*?)\)[^\n:]*:\s*\n', body, re.M | re.S)
    if not m:
        return None, ''
    ind = len(m.group(1))
    lines = []
    for l in body[m.end():].splitlines():
        if l.strip() and len(l) - len(l.lstrip()) <= ind:
            break
        lines.append(l)
    return m.group(2), '\n'.join(lines)


def read_chain(ebody):
    """multiplicative chain on the local `rate` of an `evaluate` body (BeamCXPEC):
         rate = 10 ** self._eb.evaluate(log10(energy))          head (not part of the chain)
         rate *= self._x.evaluate(arg)                          factor, unclamped so far
         if rate <= 0: return 0.0                               clamps the factor just multiplied
         return rate  |  return rate * self._x.evaluate(arg)    end (the latter adds an unclamped factor)
       -> ([(attr, arg, clamped)], every statement touching `rate` understood)"""
    lines = [l.strip() for l in (ebody or '').splitlines() if l.strip()]
    if not any(re.match(r'rate\s*(\*=|=)', l) or l.startswith('cdef double rate') for l in lines):
        return [], True
    chain, ok, i, ended = [], True, 0, False
    while i < len(lines):
        l = lines[i]
        m = re.fullmatch(r'rate \*= self\.(_\w+)\.evaluate\((.*)\)', l)
        if ended and 'rate' in l:
            ok = False
        elif m:
            chain.append([m.group(1), m.group(2).strip(), False])
        elif re.fullmatch(r'if rate <= 0(\.0)?:', l) and i + 1 < len(lines) and re.fullmatch(r'return 0(\.0)?', lines[i + 1]):
            if chain and not chain[-1][2]:
                chain[-1][2] = True
            else:
                ok = False
            i += 1
        elif l == 'return rate':
            ended = True
        elif re.fullmatch(r'return rate \* self\.(_\w+)\.evaluate\((.*)\)', l):
            m = re.fullmatch(r'return rate \* self\.(_\w+)\.evaluate\((.*)\)', l)
            chain.append([m.group(1), m.group(2).strip(), False])
            ended = True
        elif l.startswith('cdef double rate') or re.fullmatch(r'rate = 10 \*\* self\.(_\w+)\.evaluate\(log10\((\w+)\)\)', l):
            pass
        elif re.search(r'\brate\b', l):
            ok = False
        i += 1
    return [tuple(c) for c in chain], ok and ended


def read_rate_classes():
    classes = []
    alias = {}
    for f in RATE_FILES:
        pxd = open(os.path.join(REPO, 'cherab/openadas/rates/%s.pxd' % f)).read()
        for m in re.finditer(r'cimport\s+(\w+)\s+as\s+(\w+)', pxd):
            alias[m.group(2)] = m.group(1)
        src = open(os.path.join(REPO, 'cherab/openadas/rates/%s.pyx' % f)).read()
        for name, base, body in _classes(src):
            body = _strip(body)
            isig, ibody = _method(body, r'def __init__')
            esig, ebody = _method(body, r'cpdef double evaluate')
            eparams = [p for p, _ in _params(esig or '')]
            # guard: `if a <= 0 or b <= 0:` lines before the first use of an interpolator attribute (self._x)
            head = re.split(r'self\._\w+', ebody)[0]
            guarded = []
            for m in re.finditer(r'^\s*if (.*?):\s*\n\s*return 0(?:\.0)?\s*$', head, re.M):
                for t in re.split(r'\bor\b', m.group(1)):
                    mm = re.fullmatch(r'\s*(\w+)\s*<=\s*0\s*', t)
                    if mm and mm.group(1) in eparams:
                        guarded.append(mm.group(1))
            photon = re.findall(r'PhotonToJ\.to\(\s*(?:data\[["\'](\w+)["\']\]|(\w+))\s*,\s*wavelength\s*\)', ibody)
            photon = [a or b for a, b in photon]
            extrap = re.findall(r"(\w+)\s*=\s*'(\w+)'\s+if\s+extrapolate\s+else\s+'none'", ibody)
            # log-space axes: every `<f>log10(` inside the knot arguments (text up to 'cubic') of an Interpolator*Array call
            logs = []
            for m in re.finditer(r"Interpolator\dDArray\((.*?)'cubic'", ibody, re.S):
                logs += re.findall(r'([\w.]*log10)\(', m.group(1))
            axis_np = bool(logs) and all(l == 'np.log10' for l in logs)
            chain, chain_ok = read_chain(ebody)
            # what the constructor does to the tabulated values before they reach an interpolator: the argument text of
            # every `np.log10(…)` (quotes and blanks normalised) and every call that is not one of the known ones
            # (a floor / clip / where / helper applied to the table shows up in one of the two lists)
            table_logs = [re.sub(r'\s+', '', a).replace('"', "'") for a in re.findall(r'np\.log10\((.*)\)\s*$', ibody or '', re.M)]
            init_foreign = sorted({c for c in re.findall(r'([A-Za-z_][\w.]*)\s*\(', ibody or '')
                                   if c not in INIT_KNOWN_CALLS and not re.fullmatch(r'\w+\.(min|max)', c)})
            is_null = name.startswith('Null') and re.fullmatch(r'\s*return 0\.0\s*', ebody or '') is not None
            classes.append(dict(name=name, base=base, initParams=[p for p, _ in _params(isig or '')],
                                initSig=_params(isig) if isig is not None else None, evalParams=eparams, guarded=guarded,
                                photon=photon, extrap=extrap, axisLogNumpy=axis_np, isNull=is_null,
                                chain=chain, chainOk=chain_ok, tableLogs=table_logs, initForeign=init_foreign))
    return classes, alias


def read_null_sigs(classes, alias):
    core = _strip(open(os.path.join(REPO, CORE_RATES)).read())
    core_cls = {}
    for name, base, body in _classes(core):
        isig, _ = _method(body, r'def __init__')
        core_cls[name] = (base.split(',')[0].strip(), _params(isig) if isig is not None else None)
    sigs = []
    for c in classes:
        if not c['name'].startswith('Null'):
            continue
        sig = c['initSig']
        b = alias.get(c['base'], c['base'])
        hops = 0
        while sig is None and b in core_cls and hops < 10:
            sig = core_cls[b][1]
            b = core_cls[b][0]
            hops += 1
        sig = sig or []
        sigs.append(dict(name=c['name'], minArgs=sum(1 for _, d in sig if not d), maxArgs=len(sig)))
    return sigs


# ---------------------------------------------------------------------------------------------- Lean emission
def _s(x):
    return '"' + str(x).replace('\\', '\\\\').replace('"', '\\"') + '"'


def _b(x):
    return 'true' if x else 'false'


def _l(xs, f=_s):
    return '[' + ', '.join(f(x) for x in xs) + ']'


def _srcl(s):
    return '(Src.%s %s)' % (s[0], _s(s[1]))


def emit(accs, wl, classes, sigs):
    o = ['/- GENERATED by harness/translators/openadas_policy.py from cherab/openadas/openadas.py, cherab/openadas/rates/*.pyx,',
         '   cherab/core/atomic/{rates,interface}.pyx — do not edit. -/',
         'import Cherab.Model.Rates', 'namespace Cherab.Gen.OpenAdasPolicy', 'open Cherab.Rates', '']
    for a in accs:
        wlc = 'none'
        if a['wl']:
            wlc = '(some { species := %s, charge := %s, transition := %s })' % (
                _srcl(a['wl']['species']), _s(a['wl']['charge']), _srcl(a['wl']['transition']))
        o.append('def acc_%s : Accessor :=' % a['name'])
        o.append('  { name := %s, params := %s, species := %s,' % (_s(a['name']), _l(a['params']), _l(a['species'])))
        o.append('    getFn := %s, getArgs := %s,' % (_s(a['getFn']), _l(a['getArgs'], _srcl)))
        o.append('    caught := %s, handlerStd := %s,' % (_l(a['caught']), _b(a['handlerStd'])))
        o.append('    nullClass := %s, nullArgs := %s, nullInList := %s,' % (_s(a['nullClass']), _l(a['nullArgs'], _srcl), _b(a['nullInList'])))
        o.append('    wl := %s,' % wlc)
        o.append('    rateClass := %s, rateArgs := %s, rateInList := %s,' % (_s(a['rateClass']), _l(a['rateArgs'], _srcl), _b(a['rateInList'])))
        o.append('    extrapolateFlag := %s, recognised := %s }' % (_b(a['extrapolateFlag']), _b(a['recognised'])))
        for w in a['why']:
            o.append('-- not recognised: ' + w.replace('\n', ' '))
        o.append('')
    o.append('def accessors : List Accessor := ' + _l(['acc_' + a['name'] for a in accs], str))
    o.append('')
    o.append('def wavelengthPolicy : WavelengthPolicy :=')
    o.append('  { guardStd := %s, caught := %s, fallbackToElement := %s, plainUsesRaw := %s, recognised := %s }' % (
        _b(wl['guardStd']), _l(wl['caught']), _b(wl['fallbackToElement']), _b(wl['plainUsesRaw']), _b(wl['recognised'])))
    o.append('')
    o.append('def nullSigs : List NullSig := [')
    o.append(',\n'.join('  { name := %s, minArgs := %d, maxArgs := %d }' % (_s(s['name']), s['minArgs'], s['maxArgs']) for s in sigs))
    o.append(']')
    o.append('')
    o.append('def rateClasses : List RateClassSrc := [')
    o.append(',\n'.join(
        '  { name := %s, base := %s, initParams := %s, evalParams := %s,\n    guarded := %s, photon := %s, extrap := %s, axisLogNumpy := %s, isNull := %s,\n    chain := %s, chainOk := %s }' % (
            _s(c['name']), _s(c['base']), _l(c['initParams']), _l(c['evalParams']), _l(c['guarded']), _l(c['photon']),
            _l(c['extrap'], lambda p: '(%s, %s)' % (_s(p[0]), _s(p[1]))), _b(c['axisLogNumpy']), _b(c['isNull']),
            _l(c['chain'], lambda t: '(%s, %s, %s)' % (_s(t[0]), _s(t[1]), _b(t[2]))), _b(c['chainOk']))
        for c in classes))
    o.append(']')
    o.append('')
    o.append('/-- per rate class with a constructor body: the argument of every `np.log10(…)` statement of `__init__` (blanks removed,')
    o.append('double quotes written as single quotes) and the calls of `__init__` outside the known set (interpolators, np.log10,')
    o.append('PhotonToJ.to, _log10_knots, len, min/max, super().__init__): a floor / clip / helper on the table appears here -/')
    o.append('def tableLogs : List (String × List String × List String) := [')
    o.append(',\n'.join('  (%s, %s, %s)' % (_s(c['name']), _l(c['tableLogs']), _l(c['initForeign'])) for c in classes if not c['isNull']))
    o.append(']')
    o.append('')
    o.append('end Cherab.Gen.OpenAdasPolicy')
    return '\n'.join(o) + '\n'


def translate():
    """regenerate the Lean table; returns dict(accessors, wavelength, classes, null_sigs, changed)"""
    accs, wl = read_openadas()
    classes, alias = read_rate_classes()
    sigs = read_null_sigs(classes, alias)
    changed = lean.write_if_changed(OUT, emit(accs, wl, classes, sigs))
    return dict(accessors=accs, wavelength=wl, classes=classes, null_sigs=sigs, changed=changed)


if __name__ == '__main__':
    import json
    r = translate()
    print(json.dumps({k: v for k, v in r.items()}, indent=1, default=str)[:6000])
