import Cherab.Props.C06
open Cherab.Props.C06
#print axioms placeholder
