#!/bin/bash
# usage: tools/seedrecheck.sh <seeded-id> [...]   e.g. tools/seedrecheck.sh C01-1 C13-11
# Re-runs the property's quick check against installed seeded changes with the CURRENT machinery (scratch worktree of /repo
# HEAD + scratch copy of /verif; never touches /repo or /verif apart from writing seeded/<id>/recheck.json).
D="$(cd "$(dirname "${BASH_SOURCE[0]}")/.." && pwd)"
export OPENBLAS_NUM_THREADS=1 OMP_NUM_THREADS=1
for ID in "$@"; do
  P=${ID%%-*}; DIR=$D/seeded/$ID; TAG=rc_${ID}_$$
  WT=/tmp/ev_wt_$TAG; EV=/tmp/ev_verif_$TAG
  [ -f $DIR/patch.diff ] || { echo "$ID: no patch"; continue; }
  $D/tools/mut/mkwt.sh $WT >/dev/null || { echo "$ID: worktree failed"; continue; }
  if ! git -C $WT apply "$DIR/patch.diff" 2>/dev/null; then echo "$ID: PATCH DOES NOT APPLY"; $D/tools/mut/rmwt.sh $WT >/dev/null 2>&1; continue; fi
  git -C $WT diff --name-only | grep -q '\.pxd$' && find $WT/cherab -name '*.pxd' -newer $WT/setup.py -exec touch {} +
  (cd $WT && /venv/bin/python setup.py build_ext --inplace -j4 > /tmp/ev_build_$TAG.log 2>&1) || { echo "$ID: DOES NOT COMPILE"; $D/tools/mut/rmwt.sh $WT >/dev/null 2>&1; continue; }
  mkdir -p $EV
  rsync -a --delete --exclude .git --exclude replays --exclude seeded "$D"/ $EV/
  grep -rl "/repo" $EV/harness $EV/setup.sh 2>/dev/null | xargs -r sed -i -E "s#/repo([^a-zA-Z0-9_]|$)#$WT\\1#g"
  ( cd $EV && timeout 3000 env PYTHONPATH=$D/tools/mut/wtsite CHERAB_WT=$WT VERIF_SEED=${VERIF_SEED:-0} ./check $P --tier quick > /tmp/ev_out_$TAG.log 2>&1 ); RC=$?
  /venv/bin/python - "$DIR" "$RC" /tmp/ev_out_$TAG.log "$(git -C /repo rev-parse --short HEAD)" "$(git -C $D rev-parse --short HEAD)" <<'PY'
import json, sys, re, time
d, rc, log, rh, vh = sys.argv[1:6]
t = open(log, errors='replace').read()
sigs = [l.split('FAILING INPUT ', 1)[1][:140] for l in t.splitlines() if 'FAILING INPUT ' in l][:4]
nv = len(re.findall(r'^VIOLATION', t, re.M)); nf = t.count('no-failing-input-found')
verdict = ('failing input reported' if rc == '1' and nv > nf else 'broken obligation/correspondence only (no-failing-input-found)' if rc == '1'
           else 'not caught' if rc == '0' else 'no verdict (exit %s)' % rc)
json.dump(dict(date=time.strftime('%Y-%m-%d'), repo_head=rh, verif_head=vh, check_exit=int(rc), violation_lines=nv, no_failing_input_found_lines=nf,
               signatures=sigs, verdict=verdict), open(d + '/recheck.json', 'w'), indent=1)
print(d.split('/')[-1], rc, verdict, '|', (sigs[0][:90] if sigs else ''))
PY
  $D/tools/mut/rmwt.sh $WT >/dev/null 2>&1
  rm -rf $EV /tmp/ev_out_$TAG.log /tmp/ev_build_$TAG.log
done
