#!/usr/bin/env python3
"""writes MANIFEST.json from tools/claims.json (per-property texts) — keeps the manifest valid and uniform"""
import json
import os

D = os.path.dirname(os.path.dirname(os.path.abspath(__file__)))
claims = json.load(open(os.path.join(D, 'tools', 'claims.json')))
props = [json.loads(l)['id'] for l in open(os.path.join(D, 'properties.jsonl'))]
checks = []
na = []
for pid in props:
    c = claims.get(pid)
    if not c or c.get('not_applicable'):
        na.append(dict(property_id=pid, reason=(c or {}).get('not_applicable', 'check not built yet (work in progress; see DESIGN.md section 5)')))
        continue
    checks.append(dict(
        property_id=pid,
        quick_cmd='./check %s --tier quick' % pid,
        thorough_cmd='./check %s --tier thorough' % pid,
        evidence_file='evidence/%s.json' % pid,
        replay_cmd_template='./check %s --replay {path}' % pid,
        engine='lean4-proof+correspondence',
        level_claimed=dict(category='proof', text=c['text'], design_ref=c.get('design_ref', 'DESIGN.md §5 ' + pid)),
        level_note=c['note'],
        technique=c.get('technique', 'Lean 4 theorems about an executable model + differential correspondence model<->implementation')))
m = dict(
    version=1,
    setup_cmd='./setup.sh',
    hooks=dict(guard='VSNEVER_CHERAB_CORE_VERIF', enable='no hooks are needed: checks observe the code through Python-subclassable collaborators and an out-of-tree Cython shim',
               baseline_off_cmd='cd /repo && /venv/bin/python -m pytest -ra -q -p no:cacheprovider --timeout=900 --continue-on-collection-errors',
               source_commits=[], add_only=True),
    engines=[dict(name='lean4-proof+correspondence', path='lean/ harness/', serves_properties=[c['property_id'] for c in checks],
                  kind_free_text='Lean 4.33 theorems (lake build + #print axioms audit) over executable models; models tied to /repo by generated tables (translators) and by a line-protocol differential test against the real code; failing-input search on the implementation')],
    checks=checks,
    notes='exit 0 held / 1 VIOLATION / 2 infrastructure. known_findings.json lists recorded and fixed defects. See DESIGN.md.',
    not_applicable=na)
json.dump(m, open(os.path.join(D, 'MANIFEST.json'), 'w'), indent=1)
print('checks:', [c['property_id'] for c in checks], 'n/a:', len(na))
