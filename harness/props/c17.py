"""C17 — voxel area, centroid and volume are exact and independent of vertex order; grid volume is the sum;
emissivity sampling is an unbiased area-weighted estimate (exact for constants).

T  lean/Cherab/Props/C17.lean over lean/Cherab/Model/Voxels.lean (+ Gen/Voxels.lean written by
   harness/translators/voxels.py from the lookup statement of emissivity_from_function)
K  real AxisymmetricVoxel / ToroidalVoxelGrid / emissivity_from_function (raysect RNG seeded, recording
   emissivity function) / raysect find_index (shim) against the native driver running the same definitions at Float
S  oracles on the implementation only: exact-rational slab (scan-line) integration of area, first moments, volume of
   revolution and polynomial means (no shoelace, no triangulation); invariance over all rotations x both orientations;
   estimator mean within 5 sigma; sample points inside the cross-section; float-gap monitor: the looked-up triangle
   index is in range for every value raysect's uniform() can return.
"""
import json
import math
import os
import subprocess
import sys
from fractions import Fraction as Fr

import numpy as np

from harness.vlib.util import f2b, b2f, fs, close, call, VERIF
from harness.vlib import lean as vlean

PI = 3.141592653589793          # cherab/tools/inversions/voxels.pyx: cdef double PI
UMAX = 1.0 - 2.0 ** -53         # largest value of raysect.core.math.random.uniform()
SIG_OOB = 'C17:emissivity_from_function:tri_index-out-of-range'


def voxmod():
    """the module under test.  VERIF_C17_MUTANT=<dir> (used only by harness/props/c17_mut.py, the mutation smoke test)
    substitutes an out-of-tree build `voxels_mut` of an edited copy of voxels.pyx; /repo is never touched."""
    d = os.environ.get('VERIF_C17_MUTANT')
    if d:
        if d not in sys.path:
            sys.path.insert(0, d)
        import voxels_mut
        return voxels_mut
    import cherab.tools.inversions.voxels as m
    return m


# ------------------------------------------------------------------------------------------------------
# exact helpers (Fractions)
# ------------------------------------------------------------------------------------------------------
def _orient(a, b, c):
    return (b[0] - a[0]) * (c[1] - a[1]) - (b[1] - a[1]) * (c[0] - a[0])


def _on_seg(a, b, p):
    return min(a[0], b[0]) <= p[0] <= max(a[0], b[0]) and min(a[1], b[1]) <= p[1] <= max(a[1], b[1])


def _seg_intersect(a, b, c, d):
    o1, o2, o3, o4 = _orient(a, b, c), _orient(a, b, d), _orient(c, d, a), _orient(c, d, b)
    if ((o1 > 0) != (o2 > 0)) and ((o3 > 0) != (o4 > 0)) and o1 != 0 and o2 != 0 and o3 != 0 and o4 != 0:
        return True
    if o1 == 0 and _on_seg(a, b, c):
        return True
    if o2 == 0 and _on_seg(a, b, d):
        return True
    if o3 == 0 and _on_seg(c, d, a):
        return True
    if o4 == 0 and _on_seg(c, d, b):
        return True
    return False


def is_simple(vs):
    """exact test: no two non-adjacent edges touch, adjacent edges share only their common vertex, no repeated vertex"""
    P = [(Fr(x), Fr(y)) for x, y in vs]
    n = len(P)
    if n < 3 or len(set(P)) != n:
        return False
    for i in range(n):
        a, b = P[i], P[(i + 1) % n]
        for j in range(i + 1, n):
            c, d = P[j], P[(j + 1) % n]
            if j == i + 1 or (i == 0 and j == n - 1):
                # adjacent: they share one vertex; must not overlap (fold back)
                shared, o1, o2 = (b, a, d) if j == i + 1 else (a, b, c)
                if _orient(shared, o1, o2) == 0 and ((o1[0] - shared[0]) * (o2[0] - shared[0]) + (o1[1] - shared[1]) * (o2[1] - shared[1])) > 0:
                    return False
                continue
            if _seg_intersect(a, b, c, d):
                return False
    return True


def slab_oracle6(vs):
    """exact (rational) integrals over the even-odd interior of a simple polygon by horizontal slabs:
    A = area, Mr = int r dA, Mz = int z dA, Mrz = int r z dA, Mrr = int r^2 dA, Mzz = int z^2 dA.
    Scan-line, no shoelace, no triangulation.  Within a slab the crossing abscissae are linear in z, so every integrand is a
    polynomial of degree <= 3 in z and Simpson's rule is exact."""
    P = [(Fr(x), Fr(y)) for x, y in vs]
    n = len(P)
    levels = sorted(set(p[1] for p in P))
    A = Mr = Mz = Mrz = Mrr = Mzz = Fr(0)
    for za, zb in zip(levels, levels[1:]):
        zm = (za + zb) / 2
        act = []
        for i in range(n):
            p, q = P[i], P[(i + 1) % n]
            if p[1] == q[1]:
                continue
            lo, hi = (p, q) if p[1] < q[1] else (q, p)
            if lo[1] <= za and hi[1] >= zb:
                act.append((lo, hi))

        def r_at(e, z):
            lo, hi = e
            return lo[0] + (hi[0] - lo[0]) * (z - lo[1]) / (hi[1] - lo[1])
        act.sort(key=lambda e: (r_at(e, zm), r_at(e, zb)))
        assert len(act) % 2 == 0

        def LQ(z):
            L = Q = C = Fr(0)
            for k in range(0, len(act), 2):
                r1, r2 = r_at(act[k], z), r_at(act[k + 1], z)
                L += r2 - r1
                Q += (r2 * r2 - r1 * r1) / 2
                C += (r2 * r2 * r2 - r1 * r1 * r1) / 3
            return L, Q, C
        h = zb - za
        (La, Qa, Ca), (Lm, Qm, Cm), (Lb, Qb, Cb) = LQ(za), LQ(zm), LQ(zb)
        A += h / 6 * (La + 4 * Lm + Lb)
        Mr += h / 6 * (Qa + 4 * Qm + Qb)
        Mz += h / 6 * (za * La + 4 * zm * Lm + zb * Lb)
        Mrz += h / 6 * (za * Qa + 4 * zm * Qm + zb * Qb)
        Mrr += h / 6 * (Ca + 4 * Cm + Cb)
        Mzz += h / 6 * (za * za * La + 4 * zm * zm * Lm + zb * zb * Lb)
    return A, Mr, Mz, Mrz, Mrr, Mzz


def slab_oracle(vs):
    return slab_oracle6(vs)[:4]


def inside_even_odd(px, py, vs):
    c = 0
    n = len(vs)
    for i in range(n):
        (x1, y1), (x2, y2) = vs[i], vs[(i + 1) % n]
        if (y1 > py) != (y2 > py):
            if px < (x2 - x1) * (py - y1) / (y2 - y1) + x1:
                c += 1
    return c % 2 == 1


def edge_distance(px, py, vs):
    d = 1e300
    n = len(vs)
    for i in range(n):
        (x1, y1), (x2, y2) = vs[i], vs[(i + 1) % n]
        dx, dy = x2 - x1, y2 - y1
        den = dx * dx + dy * dy
        t = 0.0 if den == 0 else max(0.0, min(1.0, ((px - x1) * dx + (py - y1) * dy) / den))
        d = min(d, math.hypot(px - x1 - t * dx, py - y1 - t * dy))
    return d


# ------------------------------------------------------------------------------------------------------
# generators: simple polygons, r >= 0
# ------------------------------------------------------------------------------------------------------
def _two_opt(rng, pts):
    """untangle a random tour into a simple polygon (general position, concave)"""
    pts = list(pts)
    n = len(pts)
    for _ in range(200):
        changed = False
        for i in range(n):
            for j in range(i + 2, n):
                if i == 0 and j == n - 1:
                    continue
                a, b, c, d = pts[i], pts[i + 1], pts[j], pts[(j + 1) % n]
                if _seg_intersect(tuple(map(Fr, a)), tuple(map(Fr, b)), tuple(map(Fr, c)), tuple(map(Fr, d))):
                    pts[i + 1:j + 1] = reversed(pts[i + 1:j + 1])
                    changed = True
        if not changed:
            break
    return pts


ORTHO = [  # axis-aligned concave shapes on an integer lattice (L, U, T, staircase, comb)
    [(0, 0), (2, 0), (2, 1), (1, 1), (1, 2), (0, 2)],
    [(0, 0), (3, 0), (3, 2), (2, 2), (2, 1), (1, 1), (1, 2), (0, 2)],
    [(0, 1), (1, 1), (1, 0), (2, 0), (2, 1), (3, 1), (3, 2), (0, 2)],
    [(0, 0), (3, 0), (3, 1), (2, 1), (2, 2), (1, 2), (1, 3), (0, 3)],
    [(0, 0), (5, 0), (5, 2), (4, 2), (4, 1), (3, 1), (3, 2), (2, 2), (2, 1), (1, 1)],
    [(0, 0), (4, 0), (4, 3), (0, 3), (0, 2), (3, 2), (3, 1), (0, 1)],
    [(0, 0), (1, 0), (2, 0), (2, 1), (2, 2), (1, 2), (0, 2), (0, 1)],      # square with mid-edge (collinear) vertices
    [(0, 0), (2, 0), (1, 1), (2, 2), (0, 2)],                                # arrow head
    [(0, 0), (4, 1), (1, 1), (3, 3), (0, 2)],
]


def base_polygon(rng, kind):
    if kind == 'tri':
        while True:
            vs = [(rng.uniform(-1, 1), rng.uniform(-1, 1)) for _ in range(3)]
            if abs(_orient(*vs)) > 0.05:
                return vs
    if kind == 'rect':
        w, h = rng.uniform(0.1, 1), rng.uniform(0.1, 1)
        return [(-w, -h), (w, -h), (w, h), (-w, h)]
    if kind == 'convex':
        n = rng.randint(3, 10)
        a, b = rng.uniform(0.3, 1), rng.uniform(0.3, 1)
        angs = [2 * math.pi * (i + rng.uniform(0.15, 0.85)) / n for i in range(n)]
        return [(a * math.cos(t), b * math.sin(t)) for t in angs]
    if kind == 'star':
        n = rng.randint(4, 10)
        angs = [2 * math.pi * (i + rng.uniform(0.1, 0.9)) / n for i in range(n)]
        return [(r * math.cos(t), r * math.sin(t)) for t, r in ((t, rng.uniform(0.25, 1.0)) for t in angs)]
    if kind == 'ortho':
        vs = [(float(x), float(y)) for x, y in rng.choice(ORTHO)]
        if rng.random() < 0.5:
            vs = [(y, x) for x, y in vs][::-1]
        m = max(max(abs(x), abs(y)) for x, y in vs)
        return [(x / m, y / m) for x, y in vs]
    if kind == 'general':
        for _ in range(50):
            n = rng.randint(4, 10)
            pts = [(rng.uniform(-1, 1), rng.uniform(-1, 1)) for _ in range(n)]
            vs = _two_opt(rng, pts)
            if is_simple(vs) and min(_min_angle_sine(vs), 1) > 0.05:
                return vs
        return base_polygon(rng, 'star')
    raise ValueError(kind)


def _min_angle_sine(vs):
    m = 1.0
    n = len(vs)
    for i in range(n):
        a, b, c = vs[i - 1], vs[i], vs[(i + 1) % n]
        u = (a[0] - b[0], a[1] - b[1]); v = (c[0] - b[0], c[1] - b[1])
        den = math.hypot(*u) * math.hypot(*v)
        if den == 0:
            return 0.0
        m = min(m, abs(u[0] * v[1] - u[1] * v[0]) / den + (0.0 if (u[0] * v[0] + u[1] * v[1]) > 0 else 1.0))
    return m


PLACEMENTS = [  # (name, scale, r offset of the left-most vertex, z offset)
    ('axis', 1.0, 0.0, 0.0), ('unit', 0.3, 1.2, 0.2), ('tokamak', 0.01, 6.2, -4.1), ('tokamak2', 0.05, 1.5, 1.9),
    ('mm', 30.0, 850.0, -1200.0), ('large', 10.0, 100.0, 100.0), ('tiny', 1e-3, 2.0, 0.0), ('deep', 0.2, 0.7, -300.0),
]


def place(rng, vs, placement=None, rotate=True):
    name, s, r0, z0 = placement or rng.choice(PLACEMENTS)
    th = rng.uniform(0, 2 * math.pi)
    c, sn = math.cos(th), math.sin(th)
    if not rotate:
        c, sn = 1.0, 0.0
    out = [(s * (c * x - sn * y), s * (sn * x + c * y)) for x, y in vs]
    mn = min(x for x, _ in out)
    return name, [(x - mn + r0, y + z0) for x, y in out]


def dyadic_polygon(rng):
    """lattice polygons with coordinates k/8: double arithmetic is exact on them"""
    kind = rng.choice(['ortho', 'tri', 'convex', 'general', 'star'])
    if kind == 'ortho':
        vs = [(float(x), float(y)) for x, y in rng.choice(ORTHO)]
    else:
        for _ in range(100):
            vs = [(round(8 * x), round(8 * y)) for x, y in base_polygon(rng, kind)]
            vs = [(float(x), float(y)) for x, y in vs]
            if is_simple(vs):
                break
        else:
            vs = [(float(x), float(y)) for x, y in ORTHO[0]]
    r0 = rng.choice([0, 1, 8, 24, 1024])
    z0 = rng.choice([0, -8, 16, -4096])
    mn = min(x for x, _ in vs)
    q = rng.choice([1.0, 0.5, 0.125])
    return [((x - mn + r0) * q, (y + z0) * q) for x, y in vs]


def variants(vs):
    """all cyclic rotations x both orientations"""
    out = []
    n = len(vs)
    for rev in (False, True):
        w = vs[::-1] if rev else vs
        for k in range(n):
            out.append(((rev, k), w[k:] + w[:k]))
    return out


# ------------------------------------------------------------------------------------------------------
# implementation adapters
# ------------------------------------------------------------------------------------------------------
def impl_geom(vs):
    st, v = call(voxmod().AxisymmetricVoxel, vs)
    if st != 'ok':
        return dict(status=st, msg=v)
    out = dict(status='ok', voxel=v)
    out['vertices'] = [(p.x, p.y) for p in v.vertices]
    out['area'] = call(lambda: v.cross_sectional_area)
    out['centroid'] = call(lambda: v.cross_section_centroid)
    out['volume'] = call(lambda: v.volume)
    return out


SIG_NO_EAR = 'C17:AxisymmetricVoxel:raysect-triangulate2d-no-ear'
SIG_TRI_BAD = 'C17:AxisymmetricVoxel:raysect-triangulate2d-inconsistent-triangulation'


def _normalised(w):
    """the vertex array exactly as AxisymmetricVoxel.__init__ stores it and hands it to triangulate2d"""
    from raysect.core.math.cython.utility import _test_winding2d
    arr = np.array(w, dtype=np.float64)
    if not _test_winding2d(arr):
        arr = np.ascontiguousarray(arr[::-1])
    return arr


def triangulation_probe(w):
    """independent consistency probe of raysect's triangulate2d on this listing (exact rationals; no cherab code involved):
    'ok'            n-2 index triples over the polygon's vertices, every non-degenerate triangle oriented like the polygon
                    (then the unsigned areas add up to the polygon's area: theorem triangulation_unsigned);
    'no-ear'        triangulate2d raised its 'at least one ear' RuntimeError;
    'inconsistent'  it returned triangles but some are inverted (=> overlapping / reaching outside the polygon);
    'error:<kind>'  anything else.
    Returns (verdict, triangles or None)."""
    from raysect.core.math import triangulate2d
    arr = _normalised(w)
    st, out = call(triangulate2d, arr)
    if st != 'ok':
        return ('no-ear' if st == 'RuntimeError' and 'at least one ear' in str(out) else 'error:' + st), None
    tris = [tuple(int(i) for i in t) for t in out]
    P = [(Fr(float(x)), Fr(float(y))) for x, y in arr]
    n = len(P)
    S = sum((P[i][0] * P[(i + 1) % n][1] - P[(i + 1) % n][0] * P[i][1] for i in range(n)), Fr(0))
    T = [_orient(P[a], P[b], P[d]) for a, b, d in tris] if all(0 <= i < n for t in tris for i in t) else None
    ok = T is not None and len(tris) == n - 2 and sum(T, Fr(0)) == S and all((t > 0) == (S > 0) or t == 0 for t in T)
    return ('ok' if ok else 'inconsistent'), tris


def report_bad_triangulation(ctx, w, tris, desc, vox=None):
    """the probe failed on listing `w`: attribute to the upstream finding, with what the voxel then does as evidence"""
    from raysect.core.math.random import seed
    arr = [tuple(map(float, p)) for p in _normalised(w)]
    P = [(Fr(x), Fr(y)) for x, y in arr]
    T = [float(_orient(P[a], P[b], P[d])) / 2 for a, b, d in tris]
    A = float(slab_oracle(arr)[0])
    extra = ''
    g = vox or impl_geom(w)
    if g['status'] == 'ok':
        pts = []
        seed(20250917)
        st, _ = call(g['voxel'].emissivity_from_function, lambda r, phi, z: pts.append((r, z)) or 1.0, 4000)
        span = max(abs(c) for c in flat(arr))
        out = [q for q in pts if not (inside_even_odd(q[0], q[1], arr) or edge_distance(q[0], q[1], arr) <= 1e-9 * span)]
        extra = '; emissivity_from_function (raysect seed 20250917, 4000 samples) evaluates %d points outside the cross-section%s' % (
            len(out), ', first %r' % (out[0],) if out else '')
    else:
        extra = '; AxisymmetricVoxel refuses the polygon (%s: %s)' % (g['status'], str(g.get('msg'))[:80])
    ctx.count('triangulation:inconsistent(raysect)')
    ctx.fail(SIG_TRI_BAD, 'raysect.core.math.triangulate2d returned an inconsistent triangulation for the simple polygon %r (as stored by the voxel): '
             'triangles %r have signed areas %r — inverted/overlapping, unsigned sum %r vs polygon area %r%s'
             % (arr, tris, T, sum(abs(t) for t in T), A, extra), dict(desc, check='geom', stored_vertices=arr, triangles=tris))




def reject_signature(w, st, msg):
    """signature for a simple polygon that AxisymmetricVoxel refused.  The specific no-ear signature is used only when
    raysect's triangulate2d, called directly on the vertex list exactly as the constructor stores it (winding-normalised),
    itself raises its 'at least one ear' RuntimeError — an upstream limitation (boundary-inclusive inside_triangle + rounding
    on vertices that are collinear with other edges); cherab passes the polygon through unchanged.  Anything else keeps the
    generic signature."""
    if st == 'RuntimeError':
        try:
            verdict, _ = triangulation_probe(w)
            if verdict == 'no-ear' and 'at least one ear' in str(msg):
                return SIG_NO_EAR
            if verdict == 'inconsistent':       # a cherab-side guard refusing what raysect mis-triangulated
                return SIG_TRI_BAD
        except Exception:  # noqa
            pass
    return 'C17:AxisymmetricVoxel:rejects-simple-polygon:' + st


class Recorder:
    def __init__(self, coef):
        self.coef = coef
        self.pts = []

    def __call__(self, r, phi, z):
        self.pts.append((r, phi, z))
        c0, c1, c2, c3 = self.coef
        return c0 + c1 * r + c2 * z + c3 * r * z


def impl_triangles(vertices):
    from raysect.core.math import triangulate2d
    return [tuple(int(i) for i in t) for t in triangulate2d(np.array(vertices, dtype=np.float64))]


def uniform_stream(seed_, n):
    from raysect.core.math.random import seed, uniform
    seed(seed_)
    return [uniform() for _ in range(n)]


def point_triangle_py(v1, v2, v3, u1, u2):
    temp = math.sqrt(u1)
    alpha = 1 - temp
    beta = u2 * temp
    gamma = 1 - alpha - beta
    return (alpha * v1[0] + beta * v2[0] + gamma * v3[0], alpha * v1[1] + beta * v2[1] + gamma * v3[1])


_OOB_SCRIPT = r'''
import json, sys, os
d = json.load(sys.stdin)
if os.environ.get('VERIF_C17_MUTANT'):
    sys.path.insert(0, os.environ['VERIF_C17_MUTANT'])
    from voxels_mut import AxisymmetricVoxel
else:
    from cherab.tools.inversions.voxels import AxisymmetricVoxel
from raysect.core.math.random import seed
v = AxisymmetricVoxel([tuple(p) for p in d['vertices']])
pts = []
def f(r, phi, z):
    pts.append((r, z))
    return 1.0
seed(d['seed'])
est = v.emissivity_from_function(f, d['n'])
print(json.dumps(dict(est=est, last=[repr(pts[-1][0]), repr(pts[-1][1])], count=len(pts))))
'''


def run_oob_in_subprocess(vertices, seed_, n):
    """run emissivity_from_function in a grand-child process: an out-of-bounds read may crash the interpreter"""
    env = dict(os.environ)
    r = subprocess.run(['/venv/bin/python', '-c', _OOB_SCRIPT], input=json.dumps(dict(vertices=vertices, seed=seed_, n=n)),
                       stdout=subprocess.PIPE, stderr=subprocess.PIPE, text=True, timeout=600, env=env)
    if r.returncode != 0:
        return dict(crash=r.returncode, stderr=r.stderr[-400:])
    d = json.loads(r.stdout.strip().splitlines()[-1])
    d['last'] = (float(d['last'][0]), float(d['last'][1]))
    return d


# ------------------------------------------------------------------------------------------------------
# protocol lines
# ------------------------------------------------------------------------------------------------------
def flat(vs):
    return [c for v in vs for c in v]


def line_geom(vs):
    return 'geom %s %s' % (f2b(PI), fs(flat(vs)))


def line_emis(vertices, tris, n, coef, us):
    return 'emis %d %s %d %s %d %s %d %s' % (len(vertices), fs(flat(vertices)), len(tris), ' '.join(str(i) for t in tris for i in t),
                                             n, fs(coef), len(us), fs(us))


def line_cum(vertices, tris):
    return 'cum %d %s %d %s' % (len(vertices), fs(flat(vertices)), len(tris), ' '.join(str(i) for t in tris for i in t))


def _scale2(vs):
    return max(abs(x) for x, _ in vs) * max(max(abs(y) for _, y in vs), max(abs(x) for x, _ in vs))


# ------------------------------------------------------------------------------------------------------
# checks on one polygon (all variants)
# ------------------------------------------------------------------------------------------------------
def check_polygon(ctx, jobs, vs, kind, placement, exact=False):
    """S on every rotation/orientation of `vs`; K lines are appended to `jobs` as (line, compare-callback)."""
    n = len(vs)
    A, Mr, Mz, Mrz = slab_oracle(vs)
    if A <= 0:
        return None
    true_area, true_c, true_vol = float(A), (float(Mr / A), float(Mz / A)), float(2 * Fr(PI) * Mr)
    s2 = _scale2(vs)
    span = max(max(x for x, _ in vs) - min(x for x, _ in vs), max(y for _, y in vs) - min(y for _, y in vs))
    eps_a = 0.0 if exact else 64 * n * 2.2e-16 * s2           # conditioning of the shoelace sum at this offset
    eps_c = 0.0 if exact else 64 * n * 2.2e-16 * s2 * max(abs(x) + abs(y) for x, y in vs) / float(A) + 1e-13 * span
    first = None
    vox = None
    for (rev, k), w in variants(vs):
        desc = dict(kind=kind, placement=placement, vertices=w, base=vs, reversed=rev, rotation=k)
        g = impl_geom(w)
        ctx.count('geom:' + kind)
        ctx.case(key=('geom', kind, tuple(f2b(c) for c in flat(w))),
                 sample=dict(stream='geom', kind=kind, placement=placement, vertices=w) if (rev, k) == (False, 0) and ctx.rng.random() < 0.05 else None)
        if g['status'] != 'ok':
            sig = reject_signature(w, g['status'], g['msg'])
            ctx.count('geom:rejected:' + sig.split(':', 2)[2])
            ctx.fail(sig, 'AxisymmetricVoxel(%r) raised %s: %s%s' % (w, g['status'], g['msg'],
                     ' -- reproduced by calling raysect.core.math.triangulate2d directly on the winding-normalised vertices' if sig == SIG_NO_EAR else ''),
                     dict(check='geom', **desc))
            continue
        verdict, ptris = triangulation_probe(w)
        ctx.count('triangulation-probe:' + verdict)
        if verdict == 'inconsistent':
            report_bad_triangulation(ctx, w, ptris, desc, g)
        elif verdict != 'ok':
            ctx.broke('assumption', 'triangulate2d probe: ' + verdict, dict(vertices=w))
        elif vox is None:
            vox = g
        (sa, a), (sc, c), (sv, vol) = g['area'], g['centroid'], g['volume']
        if sa != 'ok' or sc != 'ok' or sv != 'ok':
            ctx.fail('C17:geometry:raised', 'area/centroid/volume raised %s/%s/%s on %r' % (sa, sc, sv, w), dict(check='geom', **desc))
            continue
        obs = (a, c.x, c.y, vol)
        # --- S: exactness against the slab oracle -------------------------------------------------------
        if exact:
            ok_a = Fr(a) == A
            ok_c = close(c.x, true_c[0], 4e-16) and close(c.y, true_c[1], 4e-16, 1e-300)
            ok_v = close(vol, true_vol, 1e-15)
        else:
            ok_a = abs(a - true_area) <= eps_a + 1e-14 * true_area
            ok_c = abs(c.x - true_c[0]) <= eps_c and abs(c.y - true_c[1]) <= eps_c
            ok_v = abs(vol - true_vol) <= 2 * PI * (abs(true_c[0]) * (eps_a + 1e-14 * true_area) + eps_c * true_area) + 1e-14 * abs(true_vol)
        if not ok_a:
            ctx.fail('C17:cross_sectional_area:not-true-area', 'area %r, exact scan-line area %r, vertices %r' % (a, true_area, w), dict(check='geom', **desc))
        if not ok_c:
            ctx.fail('C17:cross_section_centroid:not-true-centroid', 'centroid (%r, %r), exact scan-line centroid %r, vertices %r' % (c.x, c.y, true_c, w), dict(check='geom', **desc))
        if not ok_v:
            ctx.fail('C17:volume:not-2pi-r-area', 'volume %r, exact 2 pi int r dA = %r, vertices %r' % (vol, true_vol, w), dict(check='geom', **desc))
        # Pappus from the implementation's own numbers
        if not close(vol, 2 * PI * c.x * a, 1e-14):
            ctx.fail('C17:volume:not-pappus', 'volume %r != 2 pi * %r * %r' % (vol, c.x, a), dict(check='geom', **desc))
        # --- S: invariance under rotation / orientation -------------------------------------------------
        if first is None:
            first = obs
        else:
            if exact:
                same = obs[0] == first[0] and close(obs[1], first[1], 4e-16) and close(obs[2], first[2], 4e-16, 1e-300) and close(obs[3], first[3], 1e-15)
            else:
                same = (abs(obs[0] - first[0]) <= 2 * eps_a + 1e-14 * true_area and abs(obs[1] - first[1]) <= 2 * eps_c
                        and abs(obs[2] - first[2]) <= 2 * eps_c)
            if not same:
                ctx.fail('C17:geometry:depends-on-vertex-order', 'variant (reversed=%s, rotation=%d) gives %r, first listing gives %r' % (rev, k, obs, first),
                         dict(check='geom', **desc))
        # --- K line ----------------------------------------------------------------------------------------
        jobs.append((line_geom(w), ('geom', desc, g['vertices'], obs, eps_a, eps_c)))
        jobs.append(('norm ' + fs(flat(w)), ('norm', desc, g['vertices'])))
    return vox, (A, Mr, Mz, Mrz)


def compare_job(ctx, tag, out):
    kind = tag[0]
    if kind == 'geom':
        _, desc, verts, obs, eps_a, eps_c = tag
        t = out.split()
        ok = False
        if t and t[0] == 'ok' and len(t) == 7 and t[3] == 'c':
            a, cx, cy, vol = b2f(t[2]), b2f(t[4]), b2f(t[5]), b2f(t[6])
            ok = (close(a, obs[0], 1e-9, eps_a) and abs(cx - obs[1]) <= 1e-9 * abs(cx) + eps_c and abs(cy - obs[2]) <= 1e-9 * abs(cy) + eps_c
                  and close(vol, obs[3], 1e-9, 2 * PI * (abs(cx) * eps_a + eps_c * abs(a))))
            if ok and (a, cx, cy, vol) == tuple(obs):
                ctx.count('geom:bit-identical')
        if not ok:
            _disagree(ctx, 'geom', dict(model=out, implementation=repr(obs), input=desc))
    elif kind == 'norm':
        _, desc, verts = tag
        mod = [b2f(x) for x in out.split()]
        if mod != flat(verts):
            _disagree(ctx, 'norm', dict(model=mod, implementation=verts, input=desc))
    elif kind == 'tot':
        _, desc, obs = tag
        if not close(b2f(out), obs, 1e-12):
            _disagree(ctx, 'tot', dict(model=b2f(out), implementation=obs, input=desc))
    elif kind == 'find':
        _, desc, obs = tag
        if out.strip() != str(obs):
            _disagree(ctx, 'find', dict(model=out, implementation=obs, input=desc))
    elif kind == 'hist':
        _, desc, obs = tag
        mod = [b2f(x) for x in out.split()]
        if len(mod) != len(obs) or not all(close(a, b, 1e-12) for a, b in zip(mod, obs)):
            _disagree(ctx, 'hist', dict(model=mod, implementation=obs, input=desc))
    elif kind == 'bad':
        _, desc, obs = tag
        if out.strip() != obs:
            _disagree(ctx, 'ctor-errors', dict(model=out, implementation=obs, input=desc))
    elif kind == 'rows':
        # round 6: the validation ladder of __init__ on raw (ragged) rows: same exception class, or the same stored list bit for bit
        _, desc, obs = tag
        t = out.split()
        mod = (t[0], tuple(t[1:])) if t else ('?', ())
        if mod != obs:
            _disagree(ctx, 'rows', dict(model=out[:200], implementation=repr(obs)[:200], input=desc))
        ctx.count('rows:' + obs[0])
    elif kind == 'emiss':
        # round 6: VoxelCollection.emissivities_from_function against the model's stream-threading fold
        _, desc, (st, arr) = tag
        t = out.split()
        if t and t[0] == 'ok':
            mod = [b2f(x) for x in t[1:]]
            ok = st == 'ok' and len(mod) == len(arr) and all(close(a, b, 1e-9, 1e-12 * max(1.0, abs(a))) for a, b in zip(mod, arr))
        else:
            ok = len(t) == 2 and t[0] == 'err' and t[1] == st
        if not ok:
            _disagree(ctx, 'emiss', dict(model=out[:200], implementation=repr((st, arr))[:200], input=desc))
        ctx.count('emiss:' + st)
    ctx.traces += 1


def _disagree(ctx, stream, detail):
    ctx.disagreements += 1
    ctx.count('disagreement:' + stream)
    ctx.broke('correspondence', 'C17 stream ' + stream, detail)


# ------------------------------------------------------------------------------------------------------
# emissivity sampling
# ------------------------------------------------------------------------------------------------------
def emis_case(ctx, vox, desc, n, coef, seed_):
    """K: same uniform stream to model and implementation; returns what is needed by the caller"""
    from raysect.core.math.random import seed
    verts = vox['vertices']
    tris = impl_triangles(verts)
    us = uniform_stream(seed_, 3 * n + 3)
    return dict(verts=verts, tris=tris, us=us, n=n, coef=coef, seed=seed_, desc=desc)


def run_emis_real(case, vox):
    from raysect.core.math.random import seed
    rec = Recorder(case['coef'])
    seed(case['seed'])
    st, est = call(vox['voxel'].emissivity_from_function, rec, case['n'])
    return st, est, rec.pts


def oob_reachable(total, cum):
    """float-gap monitor: is there a value of raysect's uniform() for which the code's lookup leaves the table?"""
    return len(cum) > 1 and total * UMAX >= cum[-1]


def compare_emis(ctx, case, out, real, flags):
    st, est, pts = real
    verts, tris = case['verts'], case['tris']
    desc = dict(case['desc'], seed=case['seed'], grid_samples=case['n'], coef=case['coef'], check='emis')
    t = out.split()
    ctx.traces += 1
    if not t or t[0] not in ('ok', 'err'):
        _disagree(ctx, 'emis', dict(model=out[:200], input=desc))
        return
    if t[0] == 'err':
        k = int(t[2])
        if t[1] == 'ZeroDivisionError':
            if st != 'ZeroDivisionError':
                _disagree(ctx, 'emis', dict(model=out[:200], implementation=str((st, est)), input=desc))
            return
        # the model says the code reads outside `_triangles` at sample k (only reached through the prediction path)
        ctx.count('emis:model-predicts-out-of-range')
        return
    samples = [(int(t[2 + 3 * i]), b2f(t[3 + 3 * i]), b2f(t[4 + 3 * i])) for i in range((len(t) - 2) // 3)]
    mest = b2f(t[1])
    span = max(abs(c) for c in flat(verts))
    ok = st == 'ok' and len(samples) == len(pts) == case['n']
    if ok:
        for (ti, px, pz), (r, phi, z) in zip(samples, pts):
            if not (abs(px - r) <= 1e-12 * span and abs(pz - z) <= 1e-12 * span and phi == 0):
                ok = False
                break
        ok = ok and close(mest, est, 1e-9, 1e-12 * max(1.0, abs(mest)))
    if not ok:
        _disagree(ctx, 'emis', dict(model=out[:300], implementation=str((st, est, pts[:3])), input=desc))
    for ti, _, _ in samples:
        ctx.count('emis:triangle-%d-of-%d' % (ti, len(tris)) if len(tris) <= 3 else 'emis:triangles>3')
    # S (implementation only): every sample point lies in the closed cross-section
    if st == 'ok':
        for (r, phi, z) in pts:
            if not (inside_even_odd(r, z, verts) or edge_distance(r, z, verts) <= 1e-9 * span):
                ctx.fail('C17:emissivity_from_function:sample-outside-cross-section',
                         'sample point (%r, %r) lies outside the voxel polygon %r' % (r, z, verts), desc)
                break
    else:
        ctx.fail('C17:emissivity_from_function:raised', 'raised %s: %s' % (st, est), desc)


# ------------------------------------------------------------------------------------------------------
def run(ctx):
    ctx.rule = ('simple polygons (triangle, axis-aligned rectangle, convex, star-shaped concave, orthogonal concave incl. collinear '
                'vertices, general concave from 2-opt untangling; 3..10 vertices) placed at 8 radius/height/scale classes incl. touching the '
                'axis, plus lattice polygons with coordinates k/8 on which double arithmetic is exact; every polygon is listed in all cyclic '
                'rotations x both orientations; a case is distinct by (stream, vertex bit patterns[, RNG seed, sample count]); non-trivial = '
                'exact area > 0 and the polygon passed the exact simplicity test')
    ctx.trusted += ['raysect triangulate2d (its index triples are inputs of the model; checked per case: n-2 triangles, consistently oriented, '
                    'areas add up), raysect uniform()/point_triangle/find_index (transcribed in the model and compared through the shim), '
                    'C sqrt (IEEE, correctly rounded) as a parameter', 'pi is a parameter of the model (cherab PI = 3.141592653589793)']
    ctx.assumptions += ['finite vertex coordinates, r >= 0; polygons simple (exact rational test in the harness)',
                        '"true" area/centroid/volume in the theorems is by fan/diagonal-split additivity and the frustum identity, not Lebesgue measure; '
                        'the exact scan-line oracle (even-odd interior) covers the measure-theoretic reading on sampled polygons only',
                        'unbiasedness: theorem gives the selection interval of each triangle (length area_j/total) and convexity of the sample point; '
                        'uniformity of point_triangle within a triangle and of uniform() is raysect (statistical test only)']

    # ---- translator --------------------------------------------------------------------------------------
    from harness.translators import voxels as tr
    flags = None
    try:
        flags = tr.scan()
        vlean.write_if_changed(os.path.join(VERIF, 'lean', 'Cherab', 'Gen', 'Voxels.lean'), tr.render(flags))
        ctx.extra['lookup_statement'] = flags
    except tr.Unrecognised as e:
        ctx.broke('translator', 'voxels.py lookup statement', str(e))
        flags = dict(scale_is_total=True, clamped=False, statement='?')

    # ---- T ------------------------------------------------------------------------------------------------
    ctx.lean_check(['Cherab.Props.C17'], 'Cherab/Audit/C17.lean')

    rng = ctx.rng
    jobs = []
    emis_cases = []
    monitor = dict(polygons=0, reachable=0, worst_p=0.0, worst=None)
    cum_jobs = []

    # ---- corpus first ----------------------------------------------------------------------------------------
    cdir = os.path.join(VERIF, 'corpus', 'C17')
    corpus = []
    if os.path.isdir(cdir):
        for fn in sorted(os.listdir(cdir)):
            if fn.endswith('.json'):
                corpus.append(json.load(open(os.path.join(cdir, fn))))
    for c in corpus:
        if c.get('check') == 'oob':
            demonstrate_oob(ctx, [tuple(p) for p in c['vertices']], c['seed'], c['n'], flags, source='corpus')
        elif c.get('check') == 'geom':
            check_polygon(ctx, jobs, [tuple(p) for p in c['vertices']], 'corpus', c.get('placement', '?'))
        ctx.count('corpus')

    # ---- polygons: geometry (K + S) and sampling cases ----------------------------------------------------------
    kinds = ['tri', 'rect', 'convex', 'star', 'ortho', 'general']
    npoly = ctx.n(96, 4800)
    voxels_for_grid = []
    for it in range(npoly):
        kind = kinds[it % len(kinds)]
        base = base_polygon(rng, kind)
        placement, vs = place(rng, base, PLACEMENTS[(it // len(kinds)) % len(PLACEMENTS)],
                              rotate=not (kind in ('rect', 'ortho') and (it // (len(kinds) * len(PLACEMENTS))) % 2 == 0))
        ctx.count('placement:' + placement)
        if not is_simple(vs):
            ctx.count('generator:rejected-not-simple')
            continue
        res = check_polygon(ctx, jobs, vs, kind, placement)
        if res is None or res[0] is None:
            continue
        vox, moments = res
        voxels_for_grid.append(vs)
        desc = dict(kind=kind, placement=placement, vertices=vs)
        # sampling: K with the model on the same uniform stream
        n = rng.choice([1, 2, 7, 10, 50])
        coef = [rng.uniform(-2, 2) for _ in range(4)] if it % 5 else [rng.uniform(-2, 2), 0.0, 0.0, 0.0]
        emis_cases.append((emis_case(ctx, vox, desc, n, coef, rng.randrange(1, 2 ** 62)), vox, moments))
    for it in range(ctx.n(30, 1500)):
        vs = dyadic_polygon(rng)
        if not is_simple(vs):
            ctx.count('generator:rejected-not-simple')
            continue
        res = check_polygon(ctx, jobs, vs, 'dyadic', 'lattice', exact=True)
        if res and res[0]:
            voxels_for_grid.append(vs)
            emis_cases.append((emis_case(ctx, res[0], dict(kind='dyadic', placement='lattice', vertices=vs), rng.choice([3, 10]),
                                         [1.0, 0.5, -0.25, 0.125], rng.randrange(1, 2 ** 62)), res[0], res[1]))

    # ---- constructor error branches (malformed stream) ------------------------------------------------------------
    AxisymmetricVoxel, ToroidalVoxelGrid = voxmod().AxisymmetricVoxel, voxmod().ToroidalVoxelGrid
    for bad in ([(1.0, 0.0), (2.0, 0.0)], [(-0.5, 0.0), (1.0, 0.0), (1.0, 1.0)], [(1.0, 0.0)], [(1.0, 0.0), (2.0, 0.0), (2.0, 1.0), (-1e-9, 1.0)]):
        st, _ = call(AxisymmetricVoxel, bad)
        jobs.append((line_geom(bad), ('bad', dict(vertices=bad), st)))
        ctx.case(key=None)
    # degenerate (zero area): volume 0, centroid raises
    for deg in ([(1.0, 0.0), (2.0, 0.0), (3.0, 0.0)], [(1.0, 1.0), (2.0, 2.0), (3.0, 3.0), (2.5, 2.5)]):
        g = impl_geom(deg)
        ctx.case(key=None)
        if g['status'] == 'ok':
            obs = 'ok %s %s z %s' % ('?', f2b(g['area'][1]), f2b(g['volume'][1]))
            jobs.append((line_geom(deg), ('degenerate', dict(vertices=deg), g)))

    # ---- grids: total volume ------------------------------------------------------------------------------------------
    for it in range(ctx.n(16, 600)):
        m = rng.choice([1, 2, 3, 5, 8, 13]) if it else 0
        cells = [rng.choice(voxels_for_grid) for _ in range(m)] if voxels_for_grid else []
        if rng.random() < 0.3 and m:
            # a regular r-z grid of rectangles
            nr, nz = rng.randint(1, 4), rng.randint(1, 4)
            r0, z0, dr, dz = rng.uniform(0, 5), rng.uniform(-3, 3), rng.uniform(0.01, 0.5), rng.uniform(0.01, 0.5)
            cells = [[(r0 + i * dr, z0 + j * dz), (r0 + (i + 1) * dr, z0 + j * dz), (r0 + (i + 1) * dr, z0 + (j + 1) * dz), (r0 + i * dr, z0 + (j + 1) * dz)]
                     for i in range(nr) for j in range(nz)]
        st, grid = call(ToroidalVoxelGrid, cells)
        desc = dict(check='grid', cells=cells)
        ctx.count('grid:size-%s' % (len(cells) if len(cells) < 4 else '4+'))
        ctx.case(key=('grid', tuple(f2b(c) for cell in cells for c in flat(cell))), sample=dict(stream='grid', cells=len(cells)) if it == 1 else None)
        if st != 'ok':
            ctx.fail('C17:ToroidalVoxelGrid:raised', 'ToroidalVoxelGrid raised %s: %s' % (st, grid), desc)
            continue
        vols = [v.volume for v in grid]
        tv = grid.total_volume
        ref = math.fsum(vols)
        if not close(tv, ref, 1e-12, 0.0) or grid.count != len(cells):
            ctx.fail('C17:total_volume:not-sum-of-voxel-volumes', 'total_volume %r, sum of the voxels\' volumes %r (%d voxels)' % (tv, ref, len(cells)), desc)
        # exact cross-check against the scan-line oracle
        tru = float(sum((2 * Fr(PI) * slab_oracle(c)[1] for c in cells), Fr(0)))
        if not close(tv, tru, 1e-6, 0.0):
            ctx.fail('C17:total_volume:not-true-volume', 'total_volume %r, exact %r' % (tv, tru), desc)
        jobs.append(('tot ' + fs(vols), ('tot', desc, float(tv))))

    # ---- find_index: raysect's bisection vs the model, incl. exact hits of the knots ----------------------------------------
    from harness.vlib import shim
    sh = shim.ensure()
    for it in range(ctx.n(400, 20000)):
        m = rng.randint(1, 12)
        xs = sorted(rng.choice([rng.uniform(0, 4), float(rng.randint(0, 8)) / 4]) for _ in range(m))
        if rng.random() < 0.5:
            v = rng.choice(xs) if rng.random() < 0.7 else rng.choice(xs) + rng.choice([-1, 1]) * 2.0 ** -rng.randint(1, 52)
        else:
            v = rng.uniform(-0.5, 4.5)
        obs = sh.rs_find_index(np.array(xs, dtype=np.float64), v)
        jobs.append(('find %s %s' % (f2b(v), fs(xs)), ('find', dict(x=xs, v=v), obs)))
        ctx.count('find:' + ('below' if obs == -1 else 'top' if obs == m - 1 else 'inside'))
        ctx.case(key=('find', f2b(v), tuple(xs)))
        # S: the contract of the lookup, evaluated on the implementation's answer
        okc = (obs == -1 and v < xs[0]) or (obs == m - 1 and v >= xs[-1]) or (0 <= obs < m - 1 and xs[obs] <= v < xs[obs + 1])
        if not okc:
            ctx.fail('C17:find_index:contract', 'find_index(%r, %r) = %r' % (xs, v, obs), dict(check='find', x=xs, v=v))

    # ---- aliasing histories and collection state histories ----------------------------------------------------------------------
    pool = [v for v in voxels_for_grid if len(v) <= 8][:ctx.n(14, 120)]
    quads_pool = [quad_polygon(rng, k) for k in ('trapezoid', 'rectangle', 'parallelogram', 'kite', 'trapezoid-v', 'rectangle')]
    alias_histories(ctx, jobs, pool[:ctx.n(8, 60)] + quads_pool)
    grid_histories(ctx, jobs, pool + quads_pool)

    # ---- round 6: validation ladder on raw rows; collection-level sampling entry point ------------------------------------------------
    rows_stream(ctx, jobs, pool)
    emiss_stream(ctx, jobs, pool, flags)

    # ---- run the driver on geometry/grid/find lines -----------------------------------------------------------------------------
    outs = ctx.driver([j[0] for j in jobs])
    for (line, tag), o in zip(jobs, outs):
        if tag[0] == 'degenerate':
            g = tag[2]
            t = o.split()
            okd = (len(t) == 5 and t[0] == 'ok' and t[3] == 'z' and b2f(t[2]) == g['area'][1] == 0.0 and g['centroid'][0] == 'ZeroDivisionError'
                   and g['volume'] == ('ok', 0) and b2f(t[4]) == 0.0)
            ctx.traces += 1
            if not okd:
                _disagree(ctx, 'degenerate', dict(model=o, implementation=str((g['area'], g['centroid'], g['volume'])), input=tag[1]))
            continue
        compare_job(ctx, tag, o)

    # ---- emissivity: cumulative table (monitor) then the sampling correspondence ---------------------------------------------------
    couts = ctx.driver([line_cum(c['verts'], c['tris']) for c, _, _ in emis_cases])
    elines, keep = [], []
    for (c, vox, mom), co in zip(emis_cases, couts):
        vals = [b2f(x) for x in co.split()]
        total, cum = vals[0], vals[1:]
        c['total'], c['cum'] = total, cum
        if not check_triangulation(ctx, c, mom):
            continue            # every sampling oracle presupposes a sound triangulation; the failure is attributed above
        monitor['polygons'] += 1
        if oob_reachable(total, cum):
            # some value of uniform() makes find_index(...) + 1 == num_triangles: only a clamp keeps the index in range
            p = (total - cum[-1]) / total
            monitor['reachable'] += 1
            ctx.count('monitor:lookup-reaches-num_triangles' + ('(clamped)' if flags['clamped'] else '(UNCLAMPED)'))
            if p > monitor['worst_p']:
                monitor['worst_p'], monitor['worst'] = p, dict(vertices=c['verts'], total=total, cum_last=cum[-1])
        # would this seeded stream leave the table?  (then an unclamped implementation must not be run in-process)
        hit = [i for i in range(c['n']) if len(cum) > 1 and flags['scale_is_total'] and total * c['us'][3 * i] >= cum[-1]]
        if hit and not flags['clamped']:
            demonstrate_oob(ctx, c['verts'], c['seed'], hit[0] + 1, flags, source='stream')
            continue
        keep.append((c, vox, mom))
        elines.append(line_emis(c['verts'], c['tris'], c['n'], c['coef'], c['us']))
    eouts = ctx.driver(elines)
    for (c, vox, mom), o in zip(keep, eouts):
        real = run_emis_real(c, vox)
        ctx.case(key=('emis', tuple(f2b(x) for x in flat(c['verts'])), c['seed'], c['n']),
                 sample=dict(stream='emis', vertices=c['verts'], triangles=c['tris'], seed=c['seed'], grid_samples=c['n'], coef=c['coef'])
                 if rng.random() < 0.1 else None)
        compare_emis(ctx, c, o, real, flags)
        # exact for constants
        if c['coef'][1:] == [0.0, 0.0, 0.0] and real[0] == 'ok' and not close(real[1], c['coef'][0], 1e-14):
            ctx.fail('C17:emissivity_from_function:not-exact-for-constants', 'constant %r estimated as %r' % (c['coef'][0], real[1]),
                     dict(check='emis', vertices=c['verts'], seed=c['seed'], grid_samples=c['n'], coef=c['coef']))

    # ---- S: unbiasedness (statistical), per polygon class ----------------------------------------------------------------------------
    stat_cases = [e for e in keep if len(e[0]['tris']) >= 2]
    rng.shuffle(stat_cases)
    for c, vox, mom in stat_cases[:ctx.n(12, 200)]:
        statistical_mean(ctx, c, vox, mom, flags, ctx.n(40000, 300000))

    # ---- quadrilaterals in every listing: sampling must not depend on the start vertex ---------------------------------------------------
    quad_sampling(ctx, flags, ctx.n(10, 100), ctx.n(6000, 30000))

    # ---- float-gap monitor -> demonstration on the implementation --------------------------------------------------------------------------
    ctx.extra['monitor_tri_index_in_range'] = dict(polygons=monitor['polygons'], polygons_with_reachable_out_of_range=monitor['reachable'],
                                                   worst_probability_per_sample=monitor['worst_p'], worst=monitor['worst'])
    if flags['scale_is_total']:
        search_oob(ctx, flags)
    # one written-out case per stream for the evidence file
    reps = {}
    for smp in ctx.samples + [dict(stream='find', x=j[1][1]['x'], v=j[1][1]['v'], find_index=j[1][2]) for j in jobs if j[1][0] == 'find'][:1] + \
            [dict(stream='emis', vertices=c['verts'], triangles=c['tris'], seed=c['seed'], grid_samples=c['n'], coef=c['coef']) for c, _, _ in keep[:1]] + \
            [dict(stream='grid', total_volume_line=j[0][:120]) for j in jobs if j[1][0] == 'tot'][1:2]:
        reps.setdefault(smp.get('stream', '?'), smp)
    ctx.samples = list(reps.values())
    ctx.log('polygons %d, K lines %d, emis cases %d, monitor reachable %d/%d (worst p %.3g)' % (
        npoly, len(jobs), len(keep), monitor['reachable'], monitor['polygons'], monitor['worst_p']))


def check_triangulation(ctx, c, mom):
    """the hypotheses under which the theorems give `cum.last = total`: n-2 triangles over the polygon's vertices, all with the
    polygon's orientation, signed areas adding up to the signed polygon area (exact rationals)"""
    verts, tris = c['verts'], c['tris']
    P = [(Fr(x), Fr(y)) for x, y in verts]
    n = len(P)
    S = sum((P[i][0] * P[(i + 1) % n][1] - P[(i + 1) % n][0] * P[i][1] for i in range(n)), Fr(0))
    T = [_orient(P[a], P[b], P[d]) for a, b, d in tris]
    ok = len(tris) == n - 2 and all(0 <= i < n for t in tris for i in t) and sum(T, Fr(0)) == S and all((t > 0) == (S > 0) or t == 0 for t in T)
    ok = ok and abs(S) / 2 == mom[0]
    ctx.count('triangulation:checked')
    if not ok:
        verdict, ptris = triangulation_probe(verts)
        if verdict == 'inconsistent':
            report_bad_triangulation(ctx, verts, ptris, dict(c['desc']))
        else:
            ctx.broke('assumption', 'triangulate2d output is not a consistently oriented triangulation', dict(vertices=verts, triangles=tris))
    return ok


def statistical_mean(ctx, c, vox, mom, flags, n):
    """estimator vs the exact area-mean of a bilinear function (scan-line oracle), 5 sigma"""
    from raysect.core.math.random import seed
    A, Mr, Mz, Mrz = mom
    coef = c['coef'] if any(c['coef'][1:]) else [0.3, 1.0, -0.7, 0.4]
    verts = c['verts']
    # centre the function on the polygon so that the test is sensitive at any offset
    r0, z0 = float(Mr / A), float(Mz / A)
    span = max(max(x for x, _ in verts) - min(x for x, _ in verts), max(y for _, y in verts) - min(y for _, y in verts))

    vals = []
    pts = []

    def f(r, phi, z):
        x, y = (r - r0) / span, (z - z0) / span
        v = coef[0] + coef[1] * x + coef[2] * y + coef[3] * x * y
        vals.append(v)
        pts.append((r, z))
        return v
    # exact mean of f over the cross-section
    R0, Z0, SP = Fr(r0), Fr(z0), Fr(span)
    mx = (Mr / A - R0) / SP
    mz = (Mz / A - Z0) / SP
    mxz = (Mrz / A - R0 * Mz / A - Z0 * Mr / A + R0 * Z0) / (SP * SP)
    true_mean = float(Fr(coef[0]) + Fr(coef[1]) * mx + Fr(coef[2]) * mz + Fr(coef[3]) * mxz)
    seed_ = ctx.rng.randrange(1, 2 ** 62)
    total, cum = c['total'], c['cum']
    if flags['scale_is_total'] and not flags['clamped'] and len(cum) > 1:
        us = uniform_stream(seed_, 3 * n)
        if any(total * us[3 * i] >= cum[-1] for i in range(n)):
            ctx.count('stat:skipped-stream-leaves-table')
            return
    seed(seed_)
    st, est = call(vox['voxel'].emissivity_from_function, f, n)
    desc = dict(check='stat', vertices=verts, seed=seed_, grid_samples=n, coef=coef)
    ctx.case(key=('stat', tuple(f2b(x) for x in flat(verts)), seed_))
    ctx.count('stat:cases')
    if st != 'ok':
        ctx.fail('C17:emissivity_from_function:raised', 'raised %s' % st, desc)
        return
    m = sum(vals) / len(vals)
    var = sum((v - m) ** 2 for v in vals) / (len(vals) - 1)
    sigma = math.sqrt(var / len(vals))
    if abs(est - true_mean) > 5 * sigma + 1e-12:
        ctx.fail('C17:emissivity_from_function:biased-mean',
                 'estimate %r over %d samples, exact area-mean %r, 5 sigma = %r (polygon %r)' % (est, n, true_mean, 5 * sigma, verts), desc)
    # area-weighted choice, observed directly: share of the samples falling in each triangle of the triangulation
    tris = c['tris']
    P = verts
    cnt = [0] * len(tris)
    for (r, z) in pts:
        for j, (a, b, d) in enumerate(tris):
            o1 = (P[b][0] - P[a][0]) * (z - P[a][1]) - (P[b][1] - P[a][1]) * (r - P[a][0])
            o2 = (P[d][0] - P[b][0]) * (z - P[b][1]) - (P[d][1] - P[b][1]) * (r - P[b][0])
            o3 = (P[a][0] - P[d][0]) * (z - P[d][1]) - (P[a][1] - P[d][1]) * (r - P[d][0])
            if (o1 >= 0 and o2 >= 0 and o3 >= 0) or (o1 <= 0 and o2 <= 0 and o3 <= 0):
                cnt[j] += 1
                break
    for j, (a, b, d) in enumerate(tris):
        pj = float(abs(_orient(*[(Fr(P[i][0]), Fr(P[i][1])) for i in (a, b, d)])) / 2 / A)
        sd = math.sqrt(n * pj * (1 - pj))
        if abs(cnt[j] - n * pj) > 6 * sd + 2:
            ctx.fail('C17:emissivity_from_function:triangle-choice-not-area-weighted',
                     'triangle %d of %d holds %d of %d samples, expected %.1f +- %.1f (area share %.6f), polygon %r' % (j, len(tris), cnt[j], n, n * pj, sd, pj, verts), desc)
            break
    ctx.count('stat:triangle-frequency-tests', len(tris))
    ctx.extra.setdefault('stat_max_sigma', 0.0)
    ctx.extra['stat_max_sigma'] = max(ctx.extra['stat_max_sigma'], abs(est - true_mean) / sigma if sigma > 0 else 0.0)


# ------------------------------------------------------------------------------------------------------
# the float gap of the lookup: find a concrete failing input on the implementation
# ------------------------------------------------------------------------------------------------------
def search_oob(ctx, flags):
    """polygons far from the origin relative to their size have an ill-conditioned shoelace sum; the cumulative triangle table
    can then end below `total_area`, and `find_index(...) + 1 == num_triangles` is reached with non-negligible probability"""
    rng = ctx.rng
    best = None
    lines, cands = [], []
    for it in range(ctx.n(60, 1200)):
        base = base_polygon(rng, rng.choice(['star', 'convex', 'general']))
        _, vs = place(rng, base, ('far', 1e-3, 1000.0, 1000.0))
        if not is_simple(vs):
            continue
        g = impl_geom(vs)
        if g['status'] != 'ok':
            continue
        verdict, ptris = triangulation_probe(vs)
        if verdict != 'ok':
            if verdict == 'inconsistent':
                report_bad_triangulation(ctx, vs, ptris, dict(kind='far', vertices=vs), g)
            continue
        tris = impl_triangles(g['vertices'])
        cands.append((g['vertices'], tris))
        lines.append(line_cum(g['vertices'], tris))
    outs = ctx.driver(lines)
    ranked = []
    for (verts, tris), o in zip(cands, outs):
        vals = [b2f(x) for x in o.split()]
        total, cum = vals[0], vals[1:]
        ctx.count('oob-search:polygons')
        if oob_reachable(total, cum):
            ranked.append(((total - cum[-1]) / total, verts, tris, total, cum))
    ranked.sort(key=lambda t: -t[0])
    for p, verts, tris, total, cum in ranked[:ctx.n(3, 12)]:
        if p < 2e-6:
            break
        seed_ = rng.randrange(1, 2 ** 62)
        nmax = int(min(2e6, 12 / p))
        us = uniform_stream(seed_, 3 * nmax)
        hit = next((i for i in range(nmax) if total * us[3 * i] >= cum[-1]), None)
        if hit is None:
            ctx.count('oob-search:no-hit-in-stream')
            continue
        if demonstrate_oob(ctx, verts, seed_, hit + 1, flags, source='search', p=p):
            return True
        # in-range implementation: also compare the whole sampled sequence up to and including the clamped sample with the model
        if hit + 1 <= 20000:
            g = impl_geom(verts)
            c = emis_case(ctx, g, dict(kind='far', placement='far', vertices=verts), hit + 1, [0.5, 1e-3, -1e-3, 0.0], seed_)
            c['total'], c['cum'] = total, cum
            o = ctx.driver([line_emis(c['verts'], c['tris'], c['n'], c['coef'], c['us'])])[0]
            compare_emis(ctx, c, o, run_emis_real(c, g), flags)
            ctx.count('oob:clamped-sequence-compared')
    return False


def demonstrate_oob(ctx, verts, seed_, n, flags, source, p=None):
    """Sample n-1 of emissivity_from_function(seed) has total_area*u >= cumulative_areas[-1]: `find_index(...) + 1` equals
    num_triangles.  Run the real code (in a separate process: an unclamped read outside `_triangles` may crash) and test the
    property on what it did: the last sample point must be the point_triangle image of one of the voxel's triangles
    (and, for the correspondence with the clamped model, of the last one)."""
    verts = [tuple(v) for v in verts]
    tris = impl_triangles(verts)
    us = uniform_stream(seed_, 3 * n)
    u0, u1, u2 = us[3 * (n - 1):3 * n]
    res = run_oob_in_subprocess(verts, seed_, n)
    replay = dict(check='oob', vertices=verts, seed=seed_, n=n, triangles=tris, u=[u0, u1, u2], source=source, probability_per_sample=p)
    ctx.case(key=('oob', tuple(f2b(x) for x in flat(verts)), seed_, n), sample=dict(stream='oob', vertices=verts, seed=seed_, grid_samples=n))
    ctx.count('oob:streams-reaching-num_triangles')
    ctx.traces += 1
    if 'crash' in res:
        ctx.fail(SIG_OOB, 'emissivity_from_function crashed the interpreter (exit %s) on voxel %r, seed %d, grid_samples %d: the looked-up '
                 'triangle index equals num_triangles' % (res['crash'], verts, seed_, n), replay)
        return True
    pr, pz = res['last']
    span = max(abs(c) for c in flat(verts))
    cands = [point_triangle_py(verts[a], verts[b], verts[c], u1, u2) for a, b, c in tris]
    match = [j for j, q in enumerate(cands) if abs(q[0] - pr) <= 1e-9 * span and abs(q[1] - pz) <= 1e-9 * span]
    replay['observed_point'] = [pr, pz]
    if not match:
        inside = inside_even_odd(pr, pz, verts)
        ctx.fail(SIG_OOB, 'voxel %r, raysect seed %d: sample %d of emissivity_from_function was evaluated at (%r, %r), which is the image of none of the '
                 '%d triangles of the cross-section (%s the polygon): u = %r gives total_area*u >= cumulative_areas[-1], so tri_index == num_triangles and '
                 '_triangles is read out of bounds (boundscheck off)' % (verts, seed_, n - 1, pr, pz, len(tris), 'inside' if inside else 'OUTSIDE', u0), replay)
        return True
    ctx.count('oob:implementation-stayed-in-range')
    if flags['clamped'] and len(tris) - 1 not in match:
        _disagree(ctx, 'emis-clamp', dict(model='triangle %d (clamped)' % (len(tris) - 1), implementation='triangle(s) %r' % match, input=replay))
    if not flags['clamped']:
        _disagree(ctx, 'emis-clamp', dict(model='index out of range (source is not clamped)', implementation='triangle(s) %r' % match, input=replay))
    return False


# ------------------------------------------------------------------------------------------------------
# quadrilaterals that look like rectangles to `_has_rectangular_cross_section` (4 vertices, equal diagonals, axis-parallel
# first edge): isosceles trapezoids, plus rectangles, parallelograms, kites — sampling must not depend on the start vertex
# ------------------------------------------------------------------------------------------------------
def quad_polygon(rng, kind):
    """dyadic coordinates (k/16): symmetric shapes stay exactly symmetric in doubles, so equal diagonals are *exactly* equal"""
    q = lambda lo, hi: rng.randint(lo, hi) / 16.0
    c, z0 = q(40, 200), q(-100, 100)
    if kind == 'trapezoid':            # isosceles, parallel sides horizontal; listed starting with a parallel side
        a, b, h = q(6, 30), q(1, 30), q(4, 30)
        while abs(a - b) < 0.2:
            b = q(1, 30)
        vs = [(c - a, z0), (c + a, z0), (c + b, z0 + h), (c - b, z0 + h)]
    elif kind == 'trapezoid-v':        # parallel sides vertical
        a, b, h = q(6, 30), q(1, 30), q(4, 30)
        while abs(a - b) < 0.2:
            b = q(1, 30)
        vs = [(c, z0 - a), (c, z0 + a), (c + h, z0 + b), (c + h, z0 - b)]
    elif kind == 'rectangle':
        a, h = q(4, 30), q(4, 30)
        vs = [(c - a, z0), (c + a, z0), (c + a, z0 + h), (c - a, z0 + h)]
    elif kind == 'parallelogram':
        a, h, sh = q(4, 30), q(4, 30), q(2, 20)
        vs = [(c - a, z0), (c + a, z0), (c + a + sh, z0 + h), (c - a + sh, z0 + h)]
    elif kind == 'kite':               # equal diagonals when p + s == 2 w
        w, p = q(4, 20), q(2, 12)
        s_ = 2 * w - p if rng.random() < 0.5 and 2 * w - p > 0.1 else q(2, 30)
        vs = [(c, z0 - p), (c + w, z0), (c, z0 + s_), (c - w, z0)]
    else:
        raise ValueError(kind)
    if rng.random() < 0.5:
        vs = vs[::-1]
        vs = vs[-1:] + vs[:-1] if kind.startswith('trapezoid') or kind == 'rectangle' else vs   # keep a parallel side first
    return vs


QUAD_FUNCS = {
    'linear': lambda x, y: 0.25 + 1.0 * x - 0.5 * y,
    'quadratic': lambda x, y: 0.1 + 0.3 * x + x * x + 0.75 * x * y - 0.5 * y * y,
}


def _exact_mean(name, mom6, r0, z0, span):
    """exact mean over the cross-section of QUAD_FUNCS[name]((r - r0)/span, (z - z0)/span) from the scan-line moments"""
    A, Mr, Mz, Mrz, Mrr, Mzz = mom6
    R0, Z0, SP = Fr(r0), Fr(z0), Fr(span)
    ex = (Mr / A - R0) / SP
    ey = (Mz / A - Z0) / SP
    exx = (Mrr / A - 2 * R0 * Mr / A + R0 * R0) / (SP * SP)
    eyy = (Mzz / A - 2 * Z0 * Mz / A + Z0 * Z0) / (SP * SP)
    exy = (Mrz / A - R0 * Mz / A - Z0 * Mr / A + R0 * Z0) / (SP * SP)
    if name == 'linear':
        return float(Fr(0.25) + ex - Fr(0.5) * ey)
    return float(Fr(0.1) + Fr(0.3) * ex + exx + Fr(0.75) * exy - Fr(0.5) * eyy)


def quad_sampling(ctx, flags, nquads, nsamp):
    """every rotation x orientation of each quadrilateral: all sample points inside the polygon, the estimate of a linear and of
    a quadratic emission function within 5 sigma of the exact polygon mean, per-listing means mutually consistent; K on a short
    prefix of the sampled sequence"""
    from raysect.core.math.random import seed
    rng = ctx.rng
    kinds = ['trapezoid', 'trapezoid-v', 'rectangle', 'parallelogram', 'kite']
    klines, kcases = [], []
    for it in range(nquads):
        kind = kinds[it % len(kinds)]
        vs = quad_polygon(rng, kind)
        if not is_simple(vs):
            continue
        mom6 = slab_oracle6(vs)
        A = mom6[0]
        r0, z0 = float(mom6[1] / A), float(mom6[2] / A)
        span = max(max(x for x, _ in vs) - min(x for x, _ in vs), max(y for _, y in vs) - min(y for _, y in vs))
        means = {}
        for (rev, k), w in variants(vs):
            g = impl_geom(w)
            if g['status'] != 'ok':
                ctx.fail(reject_signature(w, g['status'], g['msg']), 'AxisymmetricVoxel(%r) raised %s: %s' % (w, g['status'], g['msg']), dict(check='quad', vertices=w, kind=kind))
                continue
            ctx.count('quad:' + kind)
            verdict, ptris = triangulation_probe(w)
            if verdict == 'inconsistent':
                report_bad_triangulation(ctx, w, ptris, dict(kind=kind, vertices=w), g)
                continue
            for fname, fn in QUAD_FUNCS.items():
                pts, vals = [], []

                def f(r, phi, z, fn=fn):
                    pts.append((r, z))
                    v = fn((r - r0) / span, (z - z0) / span)
                    vals.append(v)
                    return v
                seed_ = rng.randrange(1, 2 ** 62)
                desc = dict(check='quad', kind=kind, vertices=w, base=vs, reversed=rev, rotation=k, function=fname, seed=seed_, grid_samples=nsamp)
                seed(seed_)
                st, est = call(g['voxel'].emissivity_from_function, f, nsamp)
                ctx.case(key=('quad', kind, fname, tuple(f2b(c) for c in flat(w)), seed_),
                         sample=dict(stream='quad', kind=kind, vertices=w, function=fname, seed=seed_, grid_samples=nsamp) if (rev, k) == (False, 0) and fname == 'linear' and it < 2 else None)
                if st != 'ok':
                    ctx.fail('C17:emissivity_from_function:raised', 'raised %s on %r' % (st, w), desc)
                    continue
                outside = [(r, z) for r, z in pts if not (inside_even_odd(r, z, w) or edge_distance(r, z, w) <= 1e-9 * max(abs(c) for c in flat(w)))]
                if outside:
                    ctx.fail('C17:emissivity_from_function:sample-outside-cross-section',
                             '%d of %d sample points lie outside the %s %r (first: %r); listing reversed=%s rotation=%d' % (len(outside), len(pts), kind, w, outside[0], rev, k), desc)
                m = sum(vals) / len(vals)
                sig = math.sqrt(sum((v - m) ** 2 for v in vals) / (len(vals) - 1) / len(vals))
                true_mean = _exact_mean(fname, mom6, r0, z0, span)
                if abs(est - true_mean) > 5 * sig + 1e-12:
                    ctx.fail('C17:emissivity_from_function:biased-mean',
                             '%s %r (reversed=%s rotation=%d): estimate of the %s function %r over %d samples, exact polygon mean %r, 5 sigma = %r'
                             % (kind, w, rev, k, fname, est, nsamp, true_mean, 5 * sig), desc)
                prev = means.get(fname)
                if prev is not None and abs(est - prev[0]) > 5 * math.sqrt(sig * sig + prev[1] * prev[1]) + 1e-12:
                    ctx.fail('C17:emissivity_from_function:depends-on-start-vertex',
                             '%s: estimate %r for listing (reversed=%s rotation=%d) vs %r for listing %r of the same polygon (%s function)' % (kind, est, rev, k, prev[0], prev[2], fname), desc)
                means.setdefault(fname, (est, sig, (rev, k)))
            # K: a short seeded prefix, model vs implementation, for this listing
            c = emis_case(ctx, g, dict(kind='quad-' + kind, placement='quad', vertices=w), 12, [0.5, 0.25, -0.125, 0.0625], rng.randrange(1, 2 ** 62))
            kcases.append((c, g))
            klines.append(line_emis(c['verts'], c['tris'], c['n'], c['coef'], c['us']))
    couts = ctx.driver([line_cum(c['verts'], c['tris']) for c, _ in kcases])
    outs = ctx.driver(klines)
    for (c, g), co, o in zip(kcases, couts, outs):
        vals = [b2f(x) for x in co.split()]
        c['total'], c['cum'] = vals[0], vals[1:]
        if any(vals[0] * c['us'][3 * i] >= vals[-1] for i in range(c['n'])) and not flags['clamped']:
            continue
        compare_emis(ctx, c, o, run_emis_real(c, g), flags)


# ------------------------------------------------------------------------------------------------------
# aliasing histories: the voxel must own its vertices
# ------------------------------------------------------------------------------------------------------
def _snapshot(v):
    c = call(lambda: v.cross_section_centroid)
    return (v.cross_sectional_area, (c[1].x, c[1].y) if c[0] == 'ok' else c[0], v.volume, [(p.x, p.y) for p in v.vertices])


def alias_histories(ctx, jobs, polys):
    from raysect.core import Point2D
    rng = ctx.rng
    AxisymmetricVoxel, ToroidalVoxelGrid = voxmod().AxisymmetricVoxel, voxmod().ToroidalVoxelGrid
    for vs0 in polys:
        for rev in (False, True):
            vs = vs0[::-1] if rev else list(vs0)
            ref = _snapshot(AxisymmetricVoxel([tuple(p) for p in vs]))
            # (a) input-type independence
            inputs = {
                'list-of-tuples': lambda: [tuple(p) for p in vs],
                'list-of-lists': lambda: [list(p) for p in vs],
                'Point2D': lambda: [Point2D(*p) for p in vs],
                'ndarray-c': lambda: np.array(vs, dtype=np.float64),
                'ndarray-f': lambda: np.asfortranarray(np.array(vs, dtype=np.float64)),
                'ndarray-row-view': lambda: np.array([vs, vs[::-1], vs], dtype=np.float64)[0],
                'ndarray-strided': lambda: np.array([(x, y, 9.0) for x, y in vs], dtype=np.float64)[:, :2],
                'ndarray-every-other-row': lambda: np.array([p for q in vs for p in (q, (99.0, 99.0))], dtype=np.float64)[::2],
            }
            for name, mk in inputs.items():
                arr = mk()
                keep = arr.copy() if isinstance(arr, np.ndarray) else None
                desc = dict(check='alias', vertices=vs, input=name, reversed=rev)
                st, v = call(AxisymmetricVoxel, arr)
                ctx.count('alias:' + name)
                ctx.case(key=('alias', name, rev, tuple(f2b(c) for c in flat(vs))),
                         sample=dict(stream='alias', input=name, vertices=vs) if name == 'ndarray-c' and not rev and rng.random() < 0.2 else None)
                if st != 'ok':
                    ctx.fail('C17:AxisymmetricVoxel:rejects-' + name, 'AxisymmetricVoxel(%s of %r) raised %s: %s' % (name, vs, st, v), desc)
                    continue
                snap = _snapshot(v)
                if snap != ref:
                    ctx.fail('C17:AxisymmetricVoxel:depends-on-input-type', 'vertices given as %s: %r; as a list of tuples: %r' % (name, snap[:3], ref[:3]), desc)
                if keep is None:
                    continue
                # (b) construction must not write into the caller's array
                if not np.array_equal(arr, keep):
                    ctx.fail('C17:AxisymmetricVoxel:modifies-caller-array',
                             'constructing a voxel from the %s %r changed the caller\'s array to %r' % (name, keep.tolist(), arr.tolist()), desc)
                # (c) … and later edits / reuse of the caller's array must not reach the voxel
                for how in ('scale', 'scratch-reuse', 'zero'):
                    if how == 'scale':
                        arr *= 1.5
                    elif how == 'scratch-reuse':
                        arr[:] = np.array([(7.0 + i, 3.0 + (i * i) % 5) for i in range(len(vs))])
                    else:
                        arr[:] = 0.0
                    after = _snapshot(v)
                    if after != snap:
                        ctx.fail('C17:AxisymmetricVoxel:aliases-caller-array',
                                 'voxel built from the %s %r: after the caller\'s array was modified (%s) area/centroid/volume changed from %r to %r'
                                 % (name, keep.tolist(), how, snap[:3], after[:3]), dict(desc, mutation=how))
                        break
                # K: the model on the original coordinates vs what the voxel reports after the caller's edits
                a, c_, vol, verts = _snapshot(v)
                if not isinstance(c_, str):
                    jobs.append((line_geom(vs), ('geom', desc, verts, (a, c_[0], c_[1], vol), 0.0, 0.0)))
    # grids built from one coordinate array (m, k, 2): row views are what ToroidalVoxelGrid hands to each voxel
    quads = [p for p in polys if len(p) == 4]
    for it in range(min(len(quads) // 2, 6)):
        cells = quads[2 * it:2 * it + 2] + [quads[(2 * it + 3) % len(quads)][::-1]]
        big = np.array(cells, dtype=np.float64)
        keep = big.copy()
        desc = dict(check='alias-grid', cells=[list(map(tuple, c)) for c in keep.tolist()])
        st, grid = call(ToroidalVoxelGrid, big)
        ctx.count('alias:grid-from-ndarray')
        ctx.case(key=('alias-grid', tuple(f2b(c) for c in keep.flatten())))
        if st != 'ok':
            ctx.fail('C17:ToroidalVoxelGrid:raised', 'ToroidalVoxelGrid(ndarray) raised %s: %s' % (st, grid), desc)
            continue
        ref_tv = float(sum((2 * Fr(PI) * slab_oracle([tuple(p) for p in c])[1] for c in keep.tolist()), Fr(0)))
        tv0 = grid.total_volume
        snaps = [_snapshot(v) for v in grid]
        if not np.array_equal(big, keep):
            ctx.fail('C17:AxisymmetricVoxel:modifies-caller-array', 'ToroidalVoxelGrid(ndarray) changed the caller\'s coordinate array: %r -> %r' % (keep.tolist(), big.tolist()), desc)
        big *= 2.0
        tv1 = grid.total_volume
        if not close(tv1, tv0, 1e-14) or [_snapshot(v) for v in grid] != snaps or not close(tv1, ref_tv, 1e-9):
            ctx.fail('C17:AxisymmetricVoxel:aliases-caller-array',
                     'grid built from a coordinate ndarray: after the caller rescaled the array total_volume went from %r to %r (exact %r)' % (tv0, tv1, ref_tv), desc)
        jobs.append(('tot ' + fs([v.volume for v in grid]), ('tot', desc, float(tv1))))


# ------------------------------------------------------------------------------------------------------
# state histories of the collection: total_volume counts all voxels, whatever is active / parented
# ------------------------------------------------------------------------------------------------------
def _apply_op(grid, op):
    if op[0] == 'A':
        grid.set_active('all')
    elif op[0] == 'S':
        grid.set_active(op[1])
    elif op[0] == 'U':
        grid.unparent_all_voxels()
    elif op[0] == 'P':
        grid.parent_all_voxels()
    elif op[0] == 'X':
        grid[op[1]].parent = grid if op[2] else None
    elif op[0] == 'W':            # move the whole grid in/out of a scene: not an operation of the model (no effect on it)
        from raysect.optical import World
        grid.parent = World() if op[1] else None


def _op_tokens(op):
    return {'A': 'A', 'S': 'S %d' % op[1] if op[0] == 'S' else '', 'U': 'U', 'P': 'P',
            'X': 'X %d %d' % (op[1], int(op[2])) if op[0] == 'X' else '', 'W': ''}[op[0]]


def grid_histories(ctx, jobs, polys):
    rng = ctx.rng
    ToroidalVoxelGrid = voxmod().ToroidalVoxelGrid
    histories = []
    m0 = 3
    alphabet = [('A',), ('U',), ('P',), ('W', True), ('W', False)] + [('S', i) for i in range(m0)] + [('X', 0, False), ('X', 1, True), ('S', m0 + 2)]
    # exhaustive short histories on a 3-voxel grid x every `active=` constructor argument
    for act in ['all'] + list(range(m0)):
        for a in alphabet:
            histories.append((m0, act, [a]))
            for b in alphabet:
                histories.append((m0, act, [a, b]))
                if ctx.tier == 'thorough':
                    for c in alphabet:
                        histories.append((m0, act, [a, b, c]))
    for _ in range(ctx.n(40, 600)):
        m = rng.randint(1, 6)
        ops = []
        for _k in range(rng.randint(1, 10)):
            t = rng.random()
            ops.append(('A',) if t < 0.15 else ('S', rng.randrange(m + 1)) if t < 0.45 else ('U',) if t < 0.6 else ('P',) if t < 0.7
                       else ('X', rng.randrange(m), rng.random() < 0.5) if t < 0.9 else ('W', rng.random() < 0.5))
        histories.append((m, rng.choice(['all'] + list(range(m))), ops))
    ctx.extra['grid_histories'] = dict(exhaustive_length=3 if ctx.tier == 'thorough' else 2, alphabet=len(alphabet), total=len(histories))
    for m, act, ops in histories:
        cells = [polys[(7 * i + len(ops) + (act if isinstance(act, int) else 0)) % len(polys)] for i in range(m)]
        desc = dict(check='hist', cells=cells, active=act, ops=[list(o) for o in ops])
        st, grid = call(ToroidalVoxelGrid, cells, active=act)
        ctx.case(key=('hist', m, str(act), tuple(ops)), sample=dict(stream='hist', voxels=m, active=act, ops=[list(o) for o in ops]) if len(ops) == 4 else None)
        ctx.count('hist:len-%s' % (len(ops) if len(ops) < 4 else '4+'))
        if st != 'ok':
            ctx.fail('C17:ToroidalVoxelGrid:raised', 'ToroidalVoxelGrid(active=%r) raised %s: %s' % (act, st, grid), desc)
            continue
        ref_vols = [voxmod().AxisymmetricVoxel(c).volume for c in cells]
        ref = math.fsum(ref_vols)
        snaps0 = [_snapshot(v) for v in grid]
        observed = [grid.total_volume]
        done = []
        bad = None
        if not close(observed[0], ref, 1e-12):
            bad = ('after construction with active=%r' % (act,), observed[0])
        for op in ops:
            if bad:
                break
            st, _ = call(_apply_op, grid, op)
            done.append(op)
            expect_err = op[0] == 'S' and not (0 <= op[1] < m)
            if (st != 'ok') != expect_err:
                ctx.fail('C17:VoxelCollection:operation-raised', '%r raised %s on a grid of %d voxels' % (op, st, m), dict(desc, ops=[list(o) for o in done]))
                break
            tv = grid.total_volume
            observed.append(tv)
            if not close(tv, ref, 1e-12) or grid.count != m or len(grid) != m:
                bad = ('after %r' % (done,), tv)
            elif [_snapshot(v) for v in grid] != snaps0:
                ctx.fail('C17:VoxelCollection:voxel-geometry-changed-by-activation', 'per-voxel area/centroid/volume changed after %r' % (done,), dict(desc, ops=[list(o) for o in done]))
                break
        if bad:
            ctx.fail('C17:total_volume:depends-on-active-state',
                     'grid of %d voxels (volumes %r, sum %r): total_volume = %r %s' % (m, ref_vols, ref, bad[1], bad[0]), dict(desc, ops=[list(o) for o in done]))
        # K: the model's trace (constant) vs the observed totals; `W` is not an operation of the model
        toks = ' '.join(t for t in (_op_tokens(o) for o in done) if t)
        nmodel = 1 + sum(1 for o in done if o[0] != 'W')
        obs_model_steps = [observed[0]] + [observed[i + 1] for i, o in enumerate(done) if o[0] != 'W']
        jobs.append(('hist %d %d %s %s' % (-1 if act == 'all' else act, m, fs(ref_vols), toks), ('hist', desc, obs_model_steps[:nmodel])))


# ------------------------------------------------------------------------------------------------------
# round 6: constructor ladder on raw rows; collection-level sampling entry point
# ------------------------------------------------------------------------------------------------------
def rows_stream(ctx, jobs, polys):
    """K `rows`: AxisymmetricVoxel(rows) with ragged / negative rows at random positions against Model.mkVoxelRows
    (TypeError for a row that is not a pair, ValueError for a negative first entry, the FIRST offending row decides)."""
    rng = ctx.rng
    AxisymmetricVoxel = voxmod().AxisymmetricVoxel
    base = polys or [[(1.0, 0.0), (2.0, 0.0), (2.0, 1.0)]]
    for it in range(ctx.n(80, 3000)):
        vs = rng.choice(base)
        rows = [[float(a), float(b)] for a, b in vs]
        muts = []
        if rng.random() < 0.15:
            rows = rows[:rng.randint(0, 2)]
            muts.append('short')
        for _ in range(rng.choice([0, 1, 1, 2, 3])):
            if not rows:
                break
            i = rng.randrange(len(rows))
            m = rng.choice(['len1', 'len3', 'len0', 'neg', 'neg', 'negzero', 'tiny-neg'])
            if m == 'len1':
                rows[i] = rows[i][:1]
            elif m == 'len3':
                rows[i] = rows[i] + [rng.uniform(-1, 1)]
            elif m == 'len0':
                rows[i] = []
            elif m == 'neg' and rows[i]:
                rows[i][0] = -abs(rows[i][0]) - rng.choice([0.0, 1.0])
            elif m == 'tiny-neg' and rows[i]:
                rows[i][0] = -5e-324
            elif m == 'negzero' and rows[i] and rows[i][0] == 0.0:
                rows[i][0] = -0.0
            muts.append('%s@%d' % (m, i))
        arg = [tuple(r) if rng.random() < 0.5 else list(r) for r in rows]
        st, v = call(AxisymmetricVoxel, arg)
        desc = dict(check='rows', rows=rows, mutations=muts)
        ctx.case(key=('rows', tuple(tuple(f2b(c) for c in r) for r in rows)),
                 sample=dict(stream='rows', rows=rows, outcome=st) if it == 3 else None)
        if st == 'ok':
            obs = ('ok', tuple(f2b(c) for p in v.vertices for c in (p.x, p.y)))
        elif st in ('TypeError', 'ValueError'):
            obs = (st, ())
        else:
            ctx.count('rows:other-exception:' + st)        # e.g. raysect's triangulation refusing a damaged outline: not the ladder
            continue
        toks = ['rows']
        for r in rows:
            toks.append(str(len(r)))
            toks += [f2b(c) for c in r]
        jobs.append((' '.join(toks), ('rows', desc, obs)))


def emiss_stream(ctx, jobs, polys, flags):
    """K `emiss`: ToroidalVoxelGrid.emissivities_from_function on a seeded raysect RNG against Model.emissivities on the same
    uniform stream; S: equals the per-voxel calls made in collection order from the same RNG state, exact for constants."""
    from raysect.core.math.random import seed
    rng = ctx.rng
    if not flags['clamped'] or not flags['scale_is_total']:
        ctx.count('emiss:skipped-(lookup-not-clamped)')      # an unclamped lookup must not be run in-process
        return
    ToroidalVoxelGrid = voxmod().ToroidalVoxelGrid
    for it in range(ctx.n(14, 400)):
        m = rng.choice([0, 1, 2, 3, 5]) if it else 0
        cells = [rng.choice(polys) for _ in range(m)] if polys else []
        n = rng.choice([0, 1, 3, 10]) if it % 4 else 2
        coef = [rng.uniform(-2, 2) for _ in range(4)] if it % 3 else [rng.uniform(-2, 2), 0.0, 0.0, 0.0]
        seed_ = rng.randrange(1, 2 ** 62)
        st, grid = call(ToroidalVoxelGrid, cells)
        if st != 'ok':
            ctx.count('emiss:grid-not-constructed:' + st)
            continue
        vox = []
        for v in grid:
            verts = [(p.x, p.y) for p in v.vertices]
            vox.append((verts, impl_triangles(verts)))
        us = uniform_stream(seed_, 3 * n * len(cells) + 3)
        desc = dict(check='emiss', cells=cells, seed=seed_, grid_samples=n, coef=coef)
        ctx.case(key=('emiss', tuple(f2b(c) for cell in cells for c in flat(cell)), seed_, n),
                 sample=dict(stream='emiss', cells=len(cells), seed=seed_, grid_samples=n) if it == 2 else None)
        seed(seed_)
        st, arr = call(grid.emissivities_from_function, Recorder(coef), n)
        arr = [float(x) for x in arr] if st == 'ok' else arr
        if st == 'ok':
            seed(seed_)
            per = [call(v.emissivity_from_function, Recorder(coef), n) for v in grid]
            if [p[0] for p in per] != ['ok'] * len(cells) or [f2b(p[1]) for p in per] != [f2b(a) for a in arr]:
                ctx.fail('C17:emissivities_from_function:differs-from-per-voxel-calls',
                         'collection call %r, per-voxel calls from the same RNG state %r' % (arr[:4], per[:4]), desc)
            if coef[1:] == [0.0, 0.0, 0.0] and not all(close(a, coef[0], 1e-14) for a in arr):
                ctx.fail('C17:emissivities_from_function:not-exact-for-constants', 'constant %r estimated as %r' % (coef[0], arr[:6]), desc)
        elif not (st == 'ZeroDivisionError' and n == 0 and cells):
            ctx.fail('C17:emissivities_from_function:raised', 'raised %s: %s' % (st, arr), desc)
            continue
        toks = ['emiss', str(n), fs(coef), str(len(vox))]
        for verts, tris in vox:
            toks += [str(len(verts)), fs(flat(verts)), str(len(tris))] + [str(i) for t in tris for i in t]
        toks += [str(len(us)), fs(us)]
        jobs.append((' '.join(x for x in toks if x != ''), ('emiss', desc, (st, arr))))


def replay(ctx, path):
    r = json.load(open(path))
    rp = r.get('replay') or {}
    print(json.dumps(r, indent=1)[:3000])
    from harness.translators import voxels as tr
    try:
        flags = tr.scan()
    except tr.Unrecognised:
        flags = dict(scale_is_total=True, clamped=False)
    kind = rp.get('check')
    if kind == 'oob':
        demonstrate_oob(ctx, rp['vertices'], rp['seed'], rp['n'], flags, source='replay')
    elif kind == 'geom':
        jobs = []
        check_polygon(ctx, jobs, [tuple(v) for v in rp['base']], rp.get('kind', 'replay'), rp.get('placement', '?'))
        outs = ctx.driver([j[0] for j in jobs])
        for (line, tag), o in zip(jobs, outs):
            compare_job(ctx, tag, o)
    elif kind in ('emis', 'stat'):
        verts = [tuple(v) for v in rp['vertices']]
        g = impl_geom(verts)
        mom = slab_oracle(verts)
        c = emis_case(ctx, g, dict(vertices=verts), rp['grid_samples'], rp['coef'], rp['seed'])
        co = ctx.driver([line_cum(c['verts'], c['tris'])])[0].split()
        c['total'], c['cum'] = b2f(co[0]), [b2f(x) for x in co[1:]]
        if kind == 'emis':
            o = ctx.driver([line_emis(c['verts'], c['tris'], c['n'], c['coef'], c['us'])])[0]
            compare_emis(ctx, c, o, run_emis_real(c, g), flags)
        else:
            ctx.rng.seed(0)
            statistical_mean(ctx, c, g, mom, flags, rp['grid_samples'])
    elif kind in ('alias', 'alias-grid'):
        jobs = []
        polys = [[tuple(p) for p in rp['vertices']]] if kind == 'alias' else [[tuple(p) for p in c] for c in rp['cells']]
        alias_histories(ctx, jobs, polys)
    elif kind == 'hist':
        jobs = []
        ops = [tuple(o) for o in rp['ops']]
        ToroidalVoxelGrid = voxmod().ToroidalVoxelGrid
        cells = [[tuple(p) for p in c] for c in rp['cells']]
        grid = ToroidalVoxelGrid(cells, active=rp['active'])
        ref = math.fsum(voxmod().AxisymmetricVoxel(c).volume for c in cells)
        tv = [grid.total_volume]
        for op in ops:
            call(_apply_op, grid, op)
            tv.append(grid.total_volume)
        print('total_volume after each step:', tv, 'sum of all voxel volumes:', ref)
        if not all(close(t, ref, 1e-12) for t in tv):
            ctx.fail('C17:total_volume:depends-on-active-state', 'total_volume %r, sum of all voxel volumes %r after %r' % (tv, ref, ops), rp)
    elif kind == 'emiss':
        from raysect.core.math.random import seed
        cells = [[tuple(p) for p in c] for c in rp['cells']]
        grid = voxmod().ToroidalVoxelGrid(cells)
        seed(rp['seed'])
        st, arr = call(grid.emissivities_from_function, Recorder(rp['coef']), rp['grid_samples'])
        seed(rp['seed'])
        per = [call(v.emissivity_from_function, Recorder(rp['coef']), rp['grid_samples']) for v in grid]
        print('collection call:', st, list(arr) if st == 'ok' else arr, '\nper-voxel calls:', per)
        if st != 'ok' or [f2b(p[1]) for p in per if p[0] == 'ok'] != [f2b(a) for a in arr]:
            ctx.fail('C17:emissivities_from_function:differs-from-per-voxel-calls', 'collection %r, per voxel %r' % ((st, arr), per), rp)
    elif kind == 'quad':
        from raysect.core.math.random import seed
        w = [tuple(p) for p in rp['vertices']]
        g = impl_geom(w)
        pts = []
        seed(rp['seed'])
        g['voxel'].emissivity_from_function(lambda r, phi, z: pts.append((r, z)) or 1.0, rp['grid_samples'])
        out = [q for q in pts if not (inside_even_odd(q[0], q[1], w) or edge_distance(q[0], q[1], w) <= 1e-9 * max(abs(c) for c in flat(w)))]
        print('%d of %d sample points outside the polygon' % (len(out), len(pts)))
        if out:
            ctx.fail('C17:emissivity_from_function:sample-outside-cross-section', '%d of %d sample points outside %r' % (len(out), len(pts), w), rp)
    else:
        run(ctx)
    return ctx.finish()
