/-
C06 — executable model of the OpenADAS rate repository (cherab/openadas/repository/*.py, install.py).

Transcribed from the code that exists:
* the file system is an association list `Path ↦ File`; a `File` is the JSON object as an association list
  `IKey ↦ Val` (`IKey = []` for the single-rate files of beam stopping / population, `[str(charge)]` for the ADF11
  families, `[encode_transition t]` for the transition-keyed families, `[encode_transition t, str(metastable)]`
  for beam CX);
* every `update_*` is a read-modify-write of the whole file.  Three loop shapes occur in the source and are kept:
  `perKey`  (`_update_and_write_adf11`: validate, insert **and write** once per charge, inside the loop),
  `perFile` (pec, wavelength, beam cx, beam emission, pec thermal cx: validate+insert all transitions, then one write;
             the file is written even when the transition dict is empty),
  `whole`   (beam stopping / population: the file *is* the rate, simply overwritten);
* which function writes, which delegates to which, the path templates of writers and readers, the constant class
  strings and whether the `install_*` front-ends pass `repository_path` are *not* written here: they come from
  `Tables`, generated from the source by `harness/translators/repo_paths.py` into `Cherab/Gen/RepoPaths.lean`.
* `update_pec_rates` re-fetches the data of a transition from its argument with the *lower-cased* class key
  (`pecReindex`, guarded by the generated flag `Tables.pecReindexes`).
Mathlib-free (linked into the native driver).
-/
namespace Cherab.Repository

/-! ## association lists -/
section AList
variable {κ ν : Type} [DecidableEq κ]

def alookup (k : κ) : List (κ × ν) → Option ν
  | [] => none
  | (k', v) :: t => if k' = k then some v else alookup k t

/-- replace in place, else append (position is irrelevant: the JSON is dumped with `sort_keys`) -/
def ainsert (k : κ) (v : ν) : List (κ × ν) → List (κ × ν)
  | [] => [(k, v)]
  | (k', v') :: t => if k' = k then (k, v) :: t else (k', v') :: ainsert k v t

end AList

/-! ## data -/

inductive Err | typeError | valueError | keyError | attributeError | runtimeError
  deriving DecidableEq, Repr, Inhabited

def Err.name : Err → String
  | .typeError => "TypeError" | .valueError => "ValueError" | .keyError => "KeyError"
  | .attributeError => "AttributeError" | .runtimeError => "RuntimeError"

/-- a float64 array as it is stored: shape and the IEEE bit patterns (scalars have shape `[]`) -/
structure Arr where
  shape : List Nat
  data : List Nat
  deriving DecidableEq, Repr, Inhabited

/-- what a caller passed under one field name, as the two conversions the code may apply to it see it (NumPy and
`float` are external: their outcome on the object is an input of the model, *where* it is requested is transcribed) -/
structure Raw where
  /-- `np.array(x, np.float64)` -/
  arr : Except Err Arr
  /-- `float(x)` (as a 0-d array) -/
  flt : Except Err Arr
  deriving Repr, Inhabited

/-- the dictionary a caller passes (field name ↦ object) / the dictionary that is stored (field name ↦ float64 array) -/
abbrev Rate := List (String × Raw)
abbrev Val := List (String × Arr)

abbrev Path := List String
abbrev IKey := List String
abbrev File := List (IKey × Val)
abbrev FS := List (Path × File)

def FS.read (fs : FS) (p : Path) : Option File := alookup p fs
def FS.write (fs : FS) (p : Path) (f : File) : FS := ainsert p f fs
/-- value stored at (path, inner key) — what a reader sees -/
def FS.at (fs : FS) (p : Path) (k : IKey) : Option Val := (fs.read p).bind (alookup k)

abbrev Res := FS × Option Err

/-- `cherab.core.atomic.Element` (or an `Isotope`, which is a subclass) — or something that is not an Element -/
structure Species where
  isElement : Bool
  symbol : String
  z : Int
  /-- distinguishes Python objects that share symbol and Z (hydrogen / protium): dictionary keys compare by identity -/
  tag : Int := 0
  deriving DecidableEq, Repr, Inhabited

inductive Level | int (n : Int) | str (s : String)
  deriving DecidableEq, Repr, Inhabited

/-- python `str(level)` -/
def Level.render : Level → String
  | .int n => Int.repr n
  | .str s => s

/-- python `str.lower()` on ASCII -/
def lower (s : String) : String := s.toLower

/-- `utility.encode_transition` -/
def encodeTransition (u l : Level) : String := lower u.render ++ " -> " ++ lower l.render

/-- arguments of a call -/
inductive Arg
  | sp (s : Species) | num (n : Int) | str (s : String) | tr (u l : Level)
  deriving DecidableEq, Repr, Inhabited

/-- normalised key components: lower-cased symbol, integer, string, encoded transition; `bad` = an object
without `.symbol` -/
inductive KArg
  | sym (s : String) | num (n : Int) | str (s : String) | tr (k : String) | bad
  deriving DecidableEq, Repr, Inhabited

def Arg.norm : Arg → KArg
  | .sp s => if s.isElement then .sym (lower s.symbol) else .bad
  | .num n => .num n
  | .str s => .str s
  | .tr u l => .tr (encodeTransition u l)

/-! ## path templates (generated from the format strings) -/

inductive Slot | symLower | raw
  deriving DecidableEq, Repr, Inhabited

/-- `'lit/lit/{}/{}<ext>'.format(a₀, a₁)`: literal leading components, then one component per argument, in
argument order; the last component carries the extension -/
structure Template where
  lits : List String
  slots : List Slot
  ext : String
  deriving DecidableEq, Repr, Inhabited

def renderSlot : Slot → KArg → Option String
  | .symLower, .sym s => some s
  | .raw, .num n => some (Int.repr n)
  | .raw, .str s => some s
  | _, _ => none

def renderSlots : List Slot → List KArg → Option (List String)
  | [], [] => some []
  | s :: ss, a :: as =>
    match renderSlot s a, renderSlots ss as with
    | some x, some r => some (x :: r)
    | _, _ => none
  | _, _ => none

def addExt (ext : String) : List String → List String
  | [] => []
  | [x] => [x ++ ext]
  | x :: y :: t => x :: addExt ext (y :: t)

def Template.inst (t : Template) (args : List KArg) : Option Path :=
  (renderSlots t.slots args).map fun cs => addExt t.ext (t.lits ++ cs)

/-! ## function names -/

inductive UpdFn
  | ionisation | recombination | thermalCx | linePower | continuumPower | cxPower
  | pec | pecThermalCx | wavelength | beamCx | beamStopping | beamPopulation | beamEmission
  deriving DecidableEq, Repr, Inhabited

inductive AddFn
  | ionisation | recombination | thermalCx | linePower | continuumPower | cxPower
  | pecExcitation | pecRecombination | pecThermalCx | wavelength | beamCx | beamStopping | beamPopulation
  | beamEmission
  deriving DecidableEq, Repr, Inhabited

inductive GetFn
  | ionisation | recombination | thermalCx | linePower | continuumPower | cxPower
  | pecExcitation | pecRecombination | pecThermalCx | wavelength | beamCx | beamStopping | beamPopulation
  | beamEmission
  deriving DecidableEq, Repr, Inhabited

inductive InstallFn
  | adf11scd | adf11acd | adf11ccd | adf11plt | adf11prb | adf11prc | adf12 | adf15 | adf21 | adf22bmp | adf22bme
  deriving DecidableEq, Repr, Inhabited

def allUpd : List UpdFn :=
  [.ionisation, .recombination, .thermalCx, .linePower, .continuumPower, .cxPower, .pec, .pecThermalCx,
   .wavelength, .beamCx, .beamStopping, .beamPopulation, .beamEmission]
def allAdd : List AddFn :=
  [.ionisation, .recombination, .thermalCx, .linePower, .continuumPower, .cxPower, .pecExcitation,
   .pecRecombination, .pecThermalCx, .wavelength, .beamCx, .beamStopping, .beamPopulation, .beamEmission]
def allGet : List GetFn :=
  [.ionisation, .recombination, .thermalCx, .linePower, .continuumPower, .cxPower, .pecExcitation,
   .pecRecombination, .pecThermalCx, .wavelength, .beamCx, .beamStopping, .beamPopulation, .beamEmission]
def allInstall : List InstallFn :=
  [.adf11scd, .adf11acd, .adf11ccd, .adf11plt, .adf11prb, .adf11prc, .adf12, .adf15, .adf21, .adf22bmp, .adf22bme]

/-- what the translator reads off the source -/
structure Tables where
  /-- path template built inside `update_x` (none: the function builds no path) -/
  updWrites : UpdFn → Option Template
  /-- `add_y` called by `update_x` (beam stopping / population) -/
  updCalls : UpdFn → Option AddFn
  /-- path template built inside `add_y` -/
  addWrites : AddFn → Option Template
  /-- `update_x` called by `add_y` -/
  addCalls : AddFn → Option UpdFn
  /-- constant class key an `add_y` wraps its argument in (`'excitation'`, `'recombination'`) -/
  addFixed : AddFn → Option String
  /-- path template read by `get_z` (through `_get_pec_rate` for the two PEC getters) -/
  getReads : GetFn → Option Template
  /-- constant class a getter passes to its helper -/
  getFixed : GetFn → Option String
  /-- the `repository.update_*` calls of `install_w`, in source order, with "passes `repository_path`" -/
  installCalls : InstallFn → List (UpdFn × Bool)
  /-- every other call in install.py / create.py of a function that accepts `repository_path`:
      (caller, callee, passes it) -/
  frontCalls : List (String × String × Bool)
  /-- `update_pec_rates` rebinds its loop variable (`cls = cls.lower()`) and then fetches the data of a transition by
      indexing the argument again, `rates[cls][element][charge][transition]` — i.e. from the *lower-case* class entry -/
  pecReindexes : Bool
  /-- `utility.encode_transition`: the calls applied, in order, to the upper / lower level (`["str", "lower"]` is what
      `encodeTransition` transcribes) and the format string that joins them (`"{} -> {}"`) -/
  encodeUpper : List String
  encodeLower : List String
  encodeFormat : String

/-- the family an add/update/get function belongs to *by its name* (the specification of "matching") -/
def AddFn.own : AddFn → UpdFn
  | .ionisation => .ionisation | .recombination => .recombination | .thermalCx => .thermalCx
  | .linePower => .linePower | .continuumPower => .continuumPower | .cxPower => .cxPower
  | .pecExcitation => .pec | .pecRecombination => .pec | .pecThermalCx => .pecThermalCx
  | .wavelength => .wavelength | .beamCx => .beamCx | .beamStopping => .beamStopping
  | .beamPopulation => .beamPopulation | .beamEmission => .beamEmission

def GetFn.own : GetFn → UpdFn
  | .ionisation => .ionisation | .recombination => .recombination | .thermalCx => .thermalCx
  | .linePower => .linePower | .continuumPower => .continuumPower | .cxPower => .cxPower
  | .pecExcitation => .pec | .pecRecombination => .pec | .pecThermalCx => .pecThermalCx
  | .wavelength => .wavelength | .beamCx => .beamCx | .beamStopping => .beamStopping
  | .beamPopulation => .beamPopulation | .beamEmission => .beamEmission

/-- class string expected from the name (`get_pec_excitation_rate` ↦ `'excitation'`) -/
def AddFn.ownFixed : AddFn → Option String
  | .pecExcitation => some "excitation" | .pecRecombination => some "recombination" | _ => none
def GetFn.ownFixed : GetFn → Option String
  | .pecExcitation => some "excitation" | .pecRecombination => some "recombination" | _ => none

/-- template a call of `update_x` ends up writing with -/
def Tables.tmplOfUpd (T : Tables) (u : UpdFn) : Option Template :=
  match T.updWrites u with
  | some t => some t
  | none => (T.updCalls u).bind T.addWrites

/-- the `update_*` family whose code an `add_y` call runs -/
def Tables.famOfAdd (T : Tables) (a : AddFn) : UpdFn := (T.addCalls a).getD a.own

def Tables.tmplOfAdd (T : Tables) (a : AddFn) : Option Template :=
  match T.addWrites a with
  | some t => some t
  | none => (T.addCalls a).bind T.tmplOfUpd

/-! ## validation of rate dictionaries (hand-transcribed, in source order) -/

/-- `np.array(rate[n], np.float64)` -/
def field (r : Rate) (n : String) : Except Err Arr :=
  match alookup n r with
  | some x => x.arr
  | none => .error .keyError

/-- `float(rate[n])` -/
def fieldF (r : Rate) (n : String) : Except Err Arr :=
  match alookup n r with
  | some x => x.flt
  | none => .error .keyError

def ndim (a : Arr) : Nat := a.shape.length

def guardE (c : Bool) (e : Err) : Except Err Unit := if c then .ok () else .error e

/-- `_update_and_write_adf11` (both copies, atomic.py and radiated_power.py): reads `'te'`, `'ne'`, `'rates'`
(sic — the documented key is `'rate'`), stores `'te'`, `'ne'`, `'rate'` -/
def validateAdf11 (r : Rate) : Except Err Val := do
  let te ← field r "te"
  let ne ← field r "ne"
  let rt ← field r "rates"
  guardE (ndim ne == 1) .valueError
  guardE (ndim te == 1) .valueError
  guardE (ne.shape ++ te.shape == rt.shape) .valueError
  pure [("te", te), ("ne", ne), ("rate", rt)]

/-- `update_pec_rates` inner block -/
def validatePec (r : Rate) : Except Err Val := do
  let ne ← field r "ne"
  let te ← field r "te"
  let rt ← field r "rate"
  guardE (ndim ne == 1) .valueError
  guardE (ndim te == 1) .valueError
  guardE (ne.shape ++ te.shape == rt.shape) .valueError
  pure [("ne", ne), ("te", te), ("rate", rt)]

/-- `update_pec_thermal_cx_rates` inner block -/
def validatePecThermalCx (r : Rate) : Except Err Val := do
  let ne ← field r "ne"
  let te ← field r "te"
  let td ← field r "td"
  let rt ← field r "rate"
  guardE (ndim ne == 1) .valueError
  guardE (ndim te == 1) .valueError
  guardE (ndim td == 1) .valueError
  guardE (ne.shape ++ te.shape ++ td.shape == rt.shape) .valueError
  pure [("ne", ne), ("te", te), ("td", td), ("rate", rt)]

/-- `update_wavelengths`: `float(value)` -/
def validateWavelength (r : Rate) : Except Err Val := do
  let w ← fieldF r "value"
  pure [("value", w)]

/-- `sanitise_and_validate` of `update_beam_cx_rates` -/
def pairCheck (r : Rate) (x y : String) : Except Err (Arr × Arr) := do
  let a ← field r x
  let b ← field r y
  guardE (ndim a == 1) .valueError
  guardE (ndim b == 1) .valueError
  guardE (a.shape == b.shape) .valueError
  pure (a, b)

def validateBeamCx (r : Rate) : Except Err Val := do
  let qref ← fieldF r "qref"
  let (eb, qeb) ← pairCheck r "eb" "qeb"
  let (ti, qti) ← pairCheck r "ti" "qti"
  let (ni, qni) ← pairCheck r "ni" "qni"
  let (z, qz) ← pairCheck r "z" "qz"
  let (b, qb) ← pairCheck r "b" "qb"
  pure [("eb", eb), ("ti", ti), ("ni", ni), ("z", z), ("b", b), ("qref", qref),
        ("qeb", qeb), ("qti", qti), ("qni", qni), ("qz", qz), ("qb", qb)]

/-- `add_beam_stopping_rate`, `add_beam_population_rate`, `update_beam_emission_rates` inner block -/
def validateBeamRate (r : Rate) : Except Err Val := do
  let e ← field r "e"
  let n ← field r "n"
  let t ← field r "t"
  let sen ← field r "sen"
  let st ← field r "st"
  guardE (ndim e == 1) .valueError
  guardE (ndim n == 1) .valueError
  guardE (ndim t == 1) .valueError
  guardE (e.shape ++ n.shape == sen.shape) .valueError
  guardE (t.shape == st.shape) .valueError
  let eref ← fieldF r "eref"
  let nref ← fieldF r "nref"
  let tref ← fieldF r "tref"
  let sref ← fieldF r "sref"
  pure [("e", e), ("n", n), ("t", t), ("sen", sen), ("st", st),
        ("eref", eref), ("nref", nref), ("tref", tref), ("sref", sref)]

/-! ## per-family checks (hand-transcribed, in source order) -/

/-- `isinstance(x, Element)` else TypeError -/
def isElem : Arg → Option Err
  | .sp s => if s.isElement then none else some .typeError
  | _ => some .typeError

/-- `valid_charge(element, charge + off)` else ValueError (a non-integer charge: `'ne' <= int` is a TypeError) -/
def chargeOk (sp q : Arg) (off : Int := 0) : Option Err :=
  match sp, q with
  | .sp s, .num n => if n + off ≤ s.z then none else some .valueError
  | .sp _, _ => some .typeError
  | _, _ => some .attributeError

def firstErr : List (Option Err) → Option Err
  | [] => none
  | some e :: _ => some e
  | none :: t => firstErr t

inductive Pattern | perKey | perFile | whole
  deriving DecidableEq, Repr, Inhabited

def UpdFn.pattern : UpdFn → Pattern
  | .ionisation | .recombination | .thermalCx | .linePower | .continuumPower | .cxPower => .perKey
  | .pec | .pecThermalCx | .wavelength | .beamCx | .beamEmission => .perFile
  | .beamStopping | .beamPopulation => .whole

def validClasses : List String := ["excitation", "recombination"]

/-- checks made before the path is built, on the loop variables of one file -/
def UpdFn.precheck : UpdFn → List Arg → Option Err
  | .ionisation, [s] | .recombination, [s] | .linePower, [s] | .continuumPower, [s] | .cxPower, [s] => isElem s
  | .thermalCx, [_, _, r] => isElem r
  | .pec, [.str c, e, q] =>
      firstErr [if validClasses.contains (lower c) then none else some .valueError, isElem e, chargeOk e q]
  | .pecThermalCx, [d, dq, r, rq] => firstErr [isElem d, chargeOk d dq 1, isElem r, chargeOk r rq]
  | .wavelength, [e, q] => firstErr [isElem e, chargeOk e q]
  | .beamCx, [d, r, q] => firstErr [isElem d, isElem r, chargeOk r q]
  | .beamStopping, [b, t, q] => firstErr [isElem b, isElem t, chargeOk t q]
  | .beamPopulation, [b, .num m, t, q] =>
      firstErr [isElem b, if m < 0 then some .valueError else none, isElem t, chargeOk t q]
  | .beamEmission, [b, t, q] => firstErr [isElem b, isElem t, chargeOk t q]
  | _, _ => some .typeError

/-- checks made per inner key, before the rate dictionary is validated -/
def UpdFn.innerCheck : UpdFn → List Arg → List Arg → Option Err
  | .ionisation, [s], [q] | .recombination, [s], [q] | .linePower, [s], [q] | .continuumPower, [s], [q]
  | .cxPower, [s], [q] => chargeOk s q
  | .thermalCx, [_, _, r], [q] => chargeOk r q
  | .beamCx, _, [_, .num m] => if m ≥ 0 then none else some .valueError
  | _, _, _ => none

def UpdFn.validate : UpdFn → Rate → Except Err Val
  | .ionisation | .recombination | .thermalCx | .linePower | .continuumPower | .cxPower => validateAdf11
  | .pec => validatePec
  | .pecThermalCx => validatePecThermalCx
  | .wavelength => validateWavelength
  | .beamCx => validateBeamCx
  | .beamStopping | .beamPopulation | .beamEmission => validateBeamRate

/-- key components used for the path (the PEC class is lower-cased before it is used) -/
def UpdFn.normArgs : UpdFn → List Arg → List KArg
  | .pec, .str c :: rest => .str (lower c) :: rest.map Arg.norm
  | _, args => args.map Arg.norm

/-- `str(charge)`, `encode_transition(t)`, `metastable` (an int key, dumped as its decimal string) -/
def renderIKey : List KArg → IKey
  | [] => []
  | .num n :: t => Int.repr n :: renderIKey t
  | .tr k :: t => k :: renderIKey t
  | .str s :: t => s :: renderIKey t
  | .sym s :: t => s :: renderIKey t
  | .bad :: t => "?" :: renderIKey t

def ikeyOf (inner : List Arg) : IKey := renderIKey (inner.map Arg.norm)

/-! ## the write path -/

/-- one (file-level) entry of the nested dictionary an `update_*` receives: the loop variables that select the file,
and the (inner key, rate) items of the innermost dictionaries, in iteration order -/
structure FileEntry where
  args : List Arg
  inner : List (List Arg × Rate)
  deriving Repr, Inhabited

abbrev UpdInput := List FileEntry

def stepInner (u : UpdFn) (outer : List Arg) (content : File) (it : List Arg × Rate) : Except Err File :=
  match u.innerCheck outer it.1 with
  | some e => .error e
  | none =>
    match u.validate it.2 with
    | .error e => .error e
    | .ok v => .ok (ainsert (ikeyOf it.1) v content)

/-- `_update_and_write_adf11`: the file is rewritten after every charge -/
def loopKey (u : UpdFn) (outer : List Arg) (path : Path) : File → List (List Arg × Rate) → FS → Res
  | _, [], fs => (fs, none)
  | content, it :: rest, fs =>
    match stepInner u outer content it with
    | .error e => (fs, some e)
    | .ok c => loopKey u outer path c rest (fs.write path c)

def foldFile (u : UpdFn) (outer : List Arg) : File → List (List Arg × Rate) → Except Err File
  | c, [] => .ok c
  | c, it :: rest =>
    match stepInner u outer c it with
    | .error e => .error e
    | .ok c' => foldFile u outer c' rest

/-- beam stopping / population: the new rate replaces the file -/
def loopWhole (u : UpdFn) (outer : List Arg) (path : Path) : List (List Arg × Rate) → FS → Res
  | [], fs => (fs, none)
  | it :: rest, fs =>
    match stepInner u outer [] it with
    | .error e => (fs, some e)
    | .ok c => loopWhole u outer path rest (fs.write path c)

def defaultRoot : Path := ["~", ".cherab", "openadas", "repository"]

/-- `repository_path or DEFAULT_REPOSITORY_PATH` -/
def resolve (root : Option Path) : Path := root.getD defaultRoot

def updateEntry (u : UpdFn) (tmpl : Option Template) (root : Path) (e : FileEntry) (fs : FS) : Res :=
  match u.precheck e.args with
  | some err => (fs, some err)
  | none =>
    match tmpl.bind (·.inst (u.normArgs e.args)) with
    | none => (fs, some .attributeError)
    | some rel =>
      let path := root ++ rel
      match u.pattern with
      | .perKey => loopKey u e.args path ((fs.read path).getD []) e.inner fs
      | .perFile =>
        match foldFile u e.args ((fs.read path).getD []) e.inner with
        | .error err => (fs, some err)
        | .ok c => (fs.write path c, none)
      | .whole => loopWhole u e.args path e.inner fs

def seqEntries (f : FileEntry → FS → Res) : List FileEntry → FS → Res
  | [], fs => (fs, none)
  | e :: es, fs =>
    match f e fs with
    | (fs', none) => seqEntries f es fs'
    | r => r

/-- `data = rates[cls][element][charge][transition]` evaluated with the lower-cased `cls`: an entry whose class key is
not lower-case gets, for every transition, the rate dictionary the *lower-case* class entry of the same call holds for the
same element, charge and transition (dictionary-key equality) — a KeyError if there is none (an empty rate dictionary
makes `validatePec` raise exactly that, at the same point) -/
def pecReindex (inp : UpdInput) : UpdInput :=
  inp.map fun e =>
    match e.args with
    | .str c :: rest =>
      if lower c = c then e else
        { e with inner := e.inner.map fun it =>
            (it.1, match (inp.find? fun e' => e'.args = .str (lower c) :: rest).bind (fun e' => alookup it.1 e'.inner) with
                   | some r => r
                   | none => []) }
    | _ => e

/-- what the body of `update_x` actually iterates over / reads -/
def UpdFn.prep (T : Tables) : UpdFn → UpdInput → UpdInput
  | .pec, inp => if T.pecReindexes then pecReindex inp else inp
  | _, inp => inp

/-- `update_x(rates, repository_path)` -/
def update (T : Tables) (u : UpdFn) (inp : UpdInput) (root : Option Path) (fs : FS) : Res :=
  seqEntries (updateEntry u (T.tmplOfUpd u) (resolve root)) (u.prep T inp) fs

/-- how each `add_y` wraps its arguments into the nested dictionary it hands on (argument order as in the source) -/
def AddFn.wrap (T : Tables) : AddFn → List Arg → List (List Arg × Rate) → UpdInput
  | .ionisation, [s, q], [(_, r)] | .recombination, [s, q], [(_, r)] | .linePower, [s, q], [(_, r)]
  | .continuumPower, [s, q], [(_, r)] | .cxPower, [s, q], [(_, r)] => [⟨[s], [([q], r)]⟩]
  -- `rates2update[donor][donor_charge][receiver] = rate`: the `rate` argument *is* the {receiver_charge: rate} dict
  | .thermalCx, [d, dq, r], items => [⟨[d, dq, r], items⟩]
  | .pecExcitation, [e, q, t], [(_, r)] => [⟨[.str ((T.addFixed .pecExcitation).getD ""), e, q], [([t], r)]⟩]
  | .pecRecombination, [e, q, t], [(_, r)] => [⟨[.str ((T.addFixed .pecRecombination).getD ""), e, q], [([t], r)]⟩]
  | .pecThermalCx, [d, dq, r, rq, t], [(_, rt)] => [⟨[d, dq, r, rq], [([t], rt)]⟩]
  | .wavelength, [e, q, t], [(_, r)] => [⟨[e, q], [([t], r)]⟩]
  | .beamCx, [d, m, r, q, t], [(_, rt)] => [⟨[d, r, q], [([t, m], rt)]⟩]
  | .beamStopping, [b, t, q], [(_, r)] => [⟨[b, t, q], [([], r)]⟩]
  | .beamPopulation, [b, m, t, q], [(_, r)] => [⟨[b, m, t, q], [([], r)]⟩]
  | .beamEmission, [b, t, q, tr], [(_, r)] => [⟨[b, t, q], [([tr], r)]⟩]
  | _, _, _ => []

/-- `add_y(..., rate, repository_path)`: runs the code of the family it delegates to (or its own), with the
template that family writes with -/
def add (T : Tables) (a : AddFn) (args : List Arg) (items : List (List Arg × Rate)) (root : Option Path)
    (fs : FS) : Res :=
  seqEntries (updateEntry (T.famOfAdd a) (T.tmplOfAdd a) (resolve root)) (a.wrap T args items) fs

/-- `install_w`: the parsed data (one `UpdInput` per `repository.update_*` call, in source order) is handed on,
with or without `repository_path` as the source says -/
def installSeq (T : Tables) : List (UpdFn × Bool) → List UpdInput → Option Path → FS → Res
  | (u, passes) :: cs, inp :: inps, root, fs =>
    match update T u inp (if passes then root else none) fs with
    | (fs', none) => installSeq T cs inps root fs'
    | r => r
  | _, _, _, fs => (fs, none)

def install (T : Tables) (i : InstallFn) (inps : List UpdInput) (root : Option Path) (fs : FS) : Res :=
  installSeq T (T.installCalls i) inps root fs

def InstallFn.pyName : InstallFn → String
  | .adf11scd => "install_adf11scd" | .adf11acd => "install_adf11acd" | .adf11ccd => "install_adf11ccd"
  | .adf11plt => "install_adf11plt" | .adf11prb => "install_adf11prb" | .adf11prc => "install_adf11prc"
  | .adf12 => "install_adf12" | .adf15 => "install_adf15" | .adf21 => "install_adf21"
  | .adf22bmp => "install_adf22bmp" | .adf22bme => "install_adf22bme"

/-- does `caller` hand its `repository_path` to `callee`?  (a call the translator did not see: nothing to drop) -/
def Tables.passes (T : Tables) (caller callee : String) : Bool :=
  match T.frontCalls.find? fun c => c.1 == caller && c.2.1 == callee with
  | some c => c.2.2
  | none => true

/-- `install_files(configuration, repository_path=…)`: the `install_*` calls in dispatch order, each with the parsed data
for its `repository.update_*` calls; the first exception ends the call -/
def installFiles (T : Tables) : List (InstallFn × List UpdInput) → Option Path → FS → Res
  | [], _, fs => (fs, none)
  | (i, inps) :: rest, root, fs =>
    match install T i inps (if T.passes "install_files" i.pyName then root else none) fs with
    | (fs', none) => installFiles T rest root fs'
    | r => r

/-- `repository.populate(repository_path=…)`: `install_files`, then `update_wavelengths` -/
def populate (T : Tables) (cfg : List (InstallFn × List UpdInput)) (wl : UpdInput) (root : Option Path) (fs : FS) : Res :=
  match installFiles T cfg (if T.passes "populate" "install_files" then root else none) fs with
  | (fs', none) => update T .wavelength wl (if T.passes "populate" "update_wavelengths" then root else none) fs'
  | r => r

/-! ## the read path -/

/-- `keyed`: `content[key]` (for beam stopping / population the file *is* the rate: the key is empty);
`prefixed`: beam CX returns every metastable stored under the transition -/
inductive GetKind | keyed | prefixed
  deriving DecidableEq, Repr, Inhabited

def UpdFn.getKind : UpdFn → GetKind
  | .beamCx => .prefixed
  | _ => .keyed

/-- number of arguments that select the file -/
def UpdFn.arity : UpdFn → Nat
  | .ionisation | .recombination | .linePower | .continuumPower | .cxPower => 1
  | .wavelength => 2
  | .thermalCx | .pec | .beamCx | .beamStopping | .beamEmission => 3
  | .pecThermalCx | .beamPopulation => 4

/-- `get_z(args…, repository_path)`; result: the (inner key, value) pairs returned (one, except for beam CX which
returns every metastable of the transition) -/
def get (T : Tables) (g : GetFn) (args : List Arg) (root : Option Path) (fs : FS) :
    Except Err (List (IKey × Val)) :=
  let u := g.own
  let args := match T.getFixed g with
    | some c => Arg.str c :: args
    | none => args
  let outer := args.take u.arity
  let inner := args.drop u.arity
  match (T.getReads g).bind (·.inst (outer.map Arg.norm)) with
  | none => .error .attributeError
  | some rel =>
    let path := resolve root ++ rel
    match fs.read path with
    | none => .error .runtimeError
    | some file =>
      match u.getKind with
      | .keyed =>
        match alookup (ikeyOf inner) file with
        | some v => .ok [(ikeyOf inner, v)]
        | none => .error .runtimeError
      | .prefixed =>
        match file.filter (fun kv => kv.1.head? == (ikeyOf inner).head?) with
        | [] => .error .runtimeError
        | l => .ok l

/-! ## well-formedness of the generated tables (decidable; `Props/C06Table.lean` proves it of `Gen.RepoPaths`) -/

def slotOf : KArg → Slot
  | .sym _ => .symLower
  | _ => .raw

/-- kinds of the file-selecting key components of each family (`sym` symbol, `num` integer, `str` class) -/
inductive Kind | sym | num | str | tr
  deriving DecidableEq, Repr, Inhabited

def UpdFn.sig : UpdFn → List Kind
  | .ionisation | .recombination | .linePower | .continuumPower | .cxPower => [.sym]
  | .thermalCx => [.sym, .num, .sym]
  | .pec => [.str, .sym, .num]
  | .pecThermalCx => [.sym, .num, .sym, .num]
  | .wavelength => [.sym, .num]
  | .beamCx | .beamStopping | .beamEmission => [.sym, .sym, .num]
  | .beamPopulation => [.sym, .num, .sym, .num]

def UpdFn.innerSig : UpdFn → List Kind
  | .ionisation | .recombination | .thermalCx | .linePower | .continuumPower | .cxPower => [.num]
  | .pec | .pecThermalCx | .wavelength | .beamEmission => [.tr]
  | .beamCx => [.tr, .num]
  | .beamStopping | .beamPopulation => []

def Kind.slot : Kind → Slot
  | .sym => .symLower
  | _ => .raw

def KArg.hasKind : KArg → Kind → Bool
  | .sym _, .sym | .num _, .num | .str _, .str | .tr _, .tr => true
  | _, _ => false

def kinded : List KArg → List Kind → Bool
  | [], [] => true
  | a :: as, k :: ks => a.hasKind k && kinded as ks
  | _, _ => false

/-- two templates can never produce the same path: different number of components, or different literals at a
position where both have a literal -/
def litsClash : List String → List String → Bool
  | a :: as, b :: bs => a != b || litsClash as bs
  | _, _ => false

def Template.disjoint (s t : Template) : Bool :=
  (s.lits.length + s.slots.length != t.lits.length + t.slots.length) || litsClash s.lits t.lits

/-- the template of the family has the shape its signature demands -/
def tmplOk (u : UpdFn) (t : Option Template) : Bool :=
  match t with
  | some t => t.slots == u.sig.map Kind.slot && t.ext == ".json"
  | none => false

/-- `add_matches_update`: every `add_y` runs the code of, and writes with the template of, the family it is named
after, wrapping its data in the class it is named after -/
def Tables.addMatches (T : Tables) : Bool :=
  allAdd.all fun a => T.famOfAdd a == a.own && T.tmplOfAdd a == T.tmplOfUpd a.own && T.addFixed a == a.ownFixed

/-- every getter reads where the family it is named after writes, with the class it is named after -/
def Tables.getMatches (T : Tables) : Bool :=
  allGet.all fun g => T.getReads g == T.tmplOfUpd g.own && T.getFixed g == g.ownFixed

def Tables.shapesOk (T : Tables) : Bool :=
  allUpd.all fun u => tmplOk u (T.tmplOfUpd u)

def Tables.disjointOk (T : Tables) : Bool :=
  allUpd.all fun u => allUpd.all fun v => u == v ||
    match T.tmplOfUpd u, T.tmplOfUpd v with
    | some s, some t => s.disjoint t
    | _, _ => false

/-- `all_paths_under_root`: every front-end passes `repository_path` on -/
def Tables.rootPassed (T : Tables) : Bool :=
  (allInstall.all fun i => (T.installCalls i).all fun c => c.2) && T.frontCalls.all fun c => c.2.2

/-- the source applies to a transition exactly what `encodeTransition` transcribes: `str()` then `.lower()` on each level
— nothing else (no `strip`, no `replace`) — joined by `' -> '` -/
def Tables.encodeOk (T : Tables) : Bool :=
  T.encodeUpper == ["str", "lower"] && T.encodeLower == ["str", "lower"] && T.encodeFormat == "{} -> {}"

def Tables.wellFormed (T : Tables) : Bool :=
  T.addMatches && T.getMatches && T.shapesOk && T.disjointOk && T.rootPassed

end Cherab.Repository
