import Cherab.Props.C04
open Cherab.Props.C04
#print axioms density_zero_outside_z
